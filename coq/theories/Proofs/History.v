(* History.v — C16 for histories of any length: on a healthy connection without keep-alive, answered by the broker, the state
   "idle" (nothing queued, nothing in the reader, nothing in flight between client and broker) is re-established by every
   complete exchange.  Hence every history of QoS 1 publishes, each followed by one poll(), completes every one of them. *)
From Coq Require Import List NArith Lia Bool PeanoNat.
From Coq Require Import ZifyBool ZifyN ZifyNat.
From Minimq Require Import Bytes Varint Utf8 Props Ser De Reader Spec Arena Core Show Machine Parse Run Util Lts Refine
  VarintProofs SerLemmas CodecProofs BrokerProofs ArenaLemmas ArenaOps Inv Quota Status Persist Frames Limits Reach WireInv Chunking Wire Measure
  Terminate KeepAlive ConnectOk PingQuiet Healthy Owed Sends Pings Framing Liveness PingAt PollReads Exchange Exchange2 Exchange3 CfgFrame.
Import ListNotations.
Local Open Scope N_scope.
Local Opaque u16_be.

(* ---------------------------------------------------------------- poll() on an arrived packet: everything it leaves behind *)
(* Liveness.poll_handles_arrived, also accounting for the script, the wire and the broker's side *)
Theorem poll_handles_arrived_full : forall w h rl body t p s4,
  varint_write (lenN body) = Some rl ->
  let pkt := h :: rl ++ body in
  lenN pkt <= rcap (rd w) -> lenN pkt <= 29000 ->
  w_live w = true -> rdata (rd w) = [] -> rplen (rd w) = None ->
  next_step (s_ob (w_sess w)) = None ->
  rt_next_ping (s_rt (w_sess w)) = None -> rt_ping_timeout (s_rt (w_sess w)) = None ->
  w_script w = [] -> w_inq w = [(t, pkt)] -> t <= w_now w ->
  from_buffer pkt = Some p ->
  handle_packet (set_reader (w_sess w) (reader_reset (rd w))) p = (s4, HOk false) ->
  next_step (s_ob s4) = None ->
  exists w', op_poll FUEL w = (w', ODone None) /\
    w_sess w' = s4 /\ w_live w' = true /\ w_inq w' = [] /\ w_now w' = w_now w /\
    w_script w' = [] /\ w_wire w' = w_wire w /\ bt w' = bt w.
Proof.
  intros w h rl body t p s4 Hrl pkt Hcap H29 Hl Hd Hpl Hn Hnp Hpt Hs Hi Ht Hdec Hh Hdr.
  destruct FUEL_big as [f Hf]. assert (Hfu : N.of_nat FUEL = 30000) by reflexivity.
  unfold op_poll. rewrite Hf.
  assert (Hto : ping_timed_out (w_sess w) (w_now w) = false) by (unfold ping_timed_out; rewrite Hpt; reflexivity).
  assert (Hq : PQ w) by (split; [unfold should_queue_pingreq; rewrite Hpt, Hnp; reflexivity|apply calm_nil; exact Hs]).
  destruct (wait_reads_arrived_packet_gen (S (S (S (S f)))) w h rl body t Hrl) as [w3 [E3 [D3 [P3 [K3 [S3 [Q3 [C3 [N3 [L3 [W3 B3]]]]]]]]]]];
    try assumption; fold pkt; try (unfold BIG; lia); try (rewrite Hf in Hfu; lia).
  fold pkt in D3, P3. rewrite E3. clear E3.
  rewrite wait_unfold. unfold drive_packet. rewrite L3. cbn [negb]. rewrite drive_loop_unfold.
  assert (Ha3 : packet_available (rd w3) = true).
  { unfold packet_available. rewrite P3. unfold read_bytes. rewrite D3. apply N.leb_le. lia. }
  unfold process_received at 1. fold (rd w3). rewrite Ha3. cbn [negb]. unfold take_packet. rewrite P3, D3.
  rewrite (takeN_all pkt (lenN pkt)) by lia. rewrite Hdec.
  assert (Es3 : set_reader (w_sess w3) (reader_reset (rd w3)) = set_reader (w_sess w) (reader_reset (rd w))).
  { rewrite S3. unfold reader_reset. rewrite K3. destruct (w_sess w); reflexivity. }
  rewrite Es3, Hh.
  match goal with |- context [drive_loop ?fu true ?x] => set (w4 := x) end.
  assert (S4 : w_sess w4 = s4) by reflexivity.
  assert (L4 : w_live w4 = true) by (unfold w4; cbn [w_live upd_drained upd_envok upd_sess]; exact L3).
  assert (N4 : w_now w4 = w_now w) by (unfold w4; cbn [w_now upd_drained upd_envok upd_sess]; exact N3).
  pose proof (handle_packet_reader (set_reader (w_sess w) (reader_reset (rd w))) p) as Hr4. rewrite Hh in Hr4. cbn [fst set_reader s_reader] in Hr4.
  pose proof (handle_packet_pt_none (set_reader (w_sess w) (reader_reset (rd w))) p Hpt) as Pt4. rewrite Hh in Pt4. cbn [fst] in Pt4.
  pose proof (KeepAlive.tframe_handle_packet (set_reader (w_sess w) (reader_reset (rd w))) p) as [_ Np4]. rewrite Hh in Np4. cbn [fst set_reader s_rt] in Np4.
  rewrite drive_loop_unfold. unfold process_received. rewrite S4.
  assert (Na4 : packet_available (s_reader s4) = false) by (rewrite Hr4; reflexivity). rewrite Na4. cbn [negb].
  unfold service, ping_timed_out. rewrite S4, Pt4. unfold maybe_queue_pingreq, should_queue_pingreq. rewrite Pt4, Np4, N4, Hnp.
  cbn [andb]. rewrite <- S4, upd_sess_same, S4, Hdr. cbn [orb]. rewrite S4, Hdr.
  eexists. split; [reflexivity|]. split; [exact S4|]. split; [exact L4|].
  split; [unfold w4; cbn [w_inq upd_drained upd_envok upd_sess]; exact Q3|]. split; [exact N4|].
  split; [unfold w4; cbn [w_script upd_drained upd_envok upd_sess]; exact C3|].
  split; [unfold w4; cbn [w_wire upd_drained upd_envok upd_sess]; exact W3|].
  unfold w4, bt. cbn [w_broker w_txbuf w_last_arrival upd_drained upd_envok upd_sess]. exact B3.
Qed.

(* ---------------------------------------------------------------- idle: the state between two exchanges *)
Definition Idle (w : world) : Prop :=
  Hc w /\
  ob_ctl (s_ob (w_sess w)) = [] /\ ob_rel (s_ob (w_sess w)) = [] /\ ob_ret (s_ob (w_sess w)) = [] /\
  rt_ka_ms (s_rt (w_sess w)) = 0 /\ rt_next_ping (s_rt (w_sess w)) = None /\ rt_ping_timeout (s_rt (w_sess w)) = None /\
  w_broker w = 1 /\ w_txbuf w = [] /\ w_inq w = [] /\ w_last_arrival w <= w_now w /\
  rdata (rd w) = [] /\ rplen (rd w) = None /\ 6 <= rcap (rd w).

(* the PUBACK of the only packet in flight *)
Lemma handle_puback_single : forall s e pid, ob_ret (s_ob s) = [sent_entry e] -> re_pid e = pid ->
  handle_packet s (RPubAck pid 0) =
    (set_rt (set_ob s (compact {| ob_buf := ob_buf (s_ob s); ob_used := ob_used (s_ob s); ob_ctl := ob_ctl (s_ob s); ob_ret := []; ob_rel := ob_rel (s_ob s) |}))
            (quota_inc (s_rt s)), HOk false).
Proof.
  intros s e pid Er Epid. cbn [handle_packet]. unfold ack_packet. rewrite Er.
  cbn [remove_first_ret sent_entry re_pid]. rewrite Epid, N.eqb_refl. cbn [negb]. reflexivity.
Qed.

(* what poll() leaves when the answer to the single packet in flight empties the retained list: idle again *)
Lemma idle_after_ack : forall w1 w2 s4 e now0,
  Hc w1 -> ob_ctl (s_ob (w_sess w1)) = [] -> ob_rel (s_ob (w_sess w1)) = [] -> ob_ret (s_ob (w_sess w1)) = [sent_entry e] ->
  rt_ka_ms (s_rt (w_sess w1)) = 0 -> rt_next_ping (s_rt (w_sess w1)) = None -> rt_ping_timeout (s_rt (w_sess w1)) = None ->
  w_broker w1 = 1 -> w_txbuf w1 = [] -> w_last_arrival w1 = now0 -> now0 <= w_now w1 ->
  6 <= rcap (rd w1) ->
  forall p,
  sstep (set_reader (w_sess w1) (reader_reset (rd w1))) (LPacket (ack_type_ok (set_reader (w_sess w1) (reader_reset (rd w1))) p)) s4 ->
  s_reader s4 = reader_reset (rd w1) ->
  s_ob s4 = compact {| ob_buf := ob_buf (s_ob (w_sess w1)); ob_used := ob_used (s_ob (w_sess w1)); ob_ctl := []; ob_ret := []; ob_rel := [] |} ->
  rt_mps (s_rt s4) = None -> rt_ka_ms (s_rt s4) = 0 -> rt_next_ping (s_rt s4) = None -> rt_ping_timeout (s_rt s4) = None ->
  w_sess w2 = s4 -> w_live w2 = true -> w_inq w2 = [] -> w_now w2 = w_now w1 -> w_script w2 = [] -> bt w2 = bt w1 ->
  Idle w2.
Proof.
  intros w1 w2 s4 e now0 Hc1 Ec El Er Hka Hnp Hpt Hbr Htx Hla Hle Hcap p Hstep Hrd Hob Hmps Hka4 Hnp4 Hpt4 S2 L2 Q2 N2 C2 B2.
  pose proof Hc1 as [_ [_ [I1 [_ [_ [HB _]]]]]].
  assert (I4 : WInv s4).
  { eapply WInv_step; [exact Hstep|]. eapply WInv_step; [apply SS_reader|exact I1]. }
  unfold bt in B2. injection B2 as Bb Bt Bl.
  unfold Idle, Hc, rd. rewrite S2.
  assert (Eo : s_ob s4 = {| ob_buf := ob_buf (s_ob (w_sess w1)); ob_used := 0; ob_ctl := []; ob_ret := []; ob_rel := [] |}) by (rewrite Hob; reflexivity).
  rewrite Eo. cbn [ob_ctl ob_rel ob_ret ob_buf].
  split.
  { split; [exact C2|]. split; [exact L2|]. split; [exact I4|]. split; [exact Hmps|].
    split; [intros d E; rewrite Hpt4 in E; discriminate E|]. split; [exact HB|].
    unfold Fr. cbn [ob_ctl ob_rel ob_ret]. repeat split; constructor. }
  repeat split; try reflexivity; try assumption.
  - rewrite Bb. exact Hbr.
  - rewrite Bt. exact Htx.
  - rewrite Bl, N2, Hla. exact Hle.
  - rewrite Hrd. reflexivity.
  - rewrite Hrd. reflexivity.
  - rewrite Hrd. unfold reader_reset. cbn [rcap]. exact Hcap.
Qed.

(* ---------------------------------------------------------------- what an accepted QoS>0 publish does to the window *)
Lemma publish_middle_retained_rt : forall s r s2 op,
  publish_middle s true r = (s2, MRetained op) ->
  s_rt s2 = rt_with_quota (s_rt s) (rt_quota (s_rt s) - 1) /\ rt_quota (s_rt s) <> 0 /\ (Inv s -> op_pid op < 65536).
Proof.
  intros s r s2 op H. unfold publish_middle in H.
  destruct (negb (props_valid_for (pr_props r) CtxPublish)); [discriminate|].
  set (q := effective_qos s (pr_qos r)) in *.
  assert (Hq : forall s1 id, next_packet_id s = (s1, id) ->
    (if retained_full (s_ob s1) then (s1, MErr EInflightExhausted) else
     if negb (true && sess_can_publish s1 q) then (s1, MErr ENotReady) else
     let req := {| pq_topic := pr_topic r; pq_pid := Some id; pq_props := pr_props r; pq_retain := pr_retain r;
                   pq_qos := q; pq_dup := false; pq_payload := pr_payload r |} in
     let '(o1, er) := encode_at (s_ob s1) (fun cap => enc_publish cap req) in
     let s2 := set_ob s1 o1 in
     match er with
     | EErr e => (s2, MErr (err_of_serr e))
     | EOk off len =>
         if too_large (rt_mps (s_rt s2)) len then (s2, MErr EPacketTooLarge) else
         match retain_packet o1 id off len with
         | None => (s2, MErr EInflightExhausted)
         | Some o2 =>
             let s3 := set_rt (set_ob s2 o2) (rt_with_quota (s_rt s2) (rt_quota (s_rt s2) - 1)) in
             (s3, MRetained {| op_kind := match q with Q2 => 1 | _ => 0 end; op_pid := id; op_gen := s_gen s3 |})
         end
     end) = (s2, MRetained op) -> q <> Q0 ->
    s_rt s2 = rt_with_quota (s_rt s) (rt_quota (s_rt s) - 1) /\ rt_quota (s_rt s) <> 0 /\ (Inv s -> op_pid op < 65536)).
  { intros s1 id En G Hq0. pose proof (next_packet_id_ob s) as [Eo Er]. rewrite En in Eo, Er. cbn [fst] in Eo, Er.
    destruct (retained_full (s_ob s1)); [discriminate|].
    destruct (negb (true && sess_can_publish s1 q)) eqn:Ecp; [discriminate|].
    cbv zeta in G. destruct (encode_at (s_ob s1) _) as [o1 er]. destruct er as [off len|e]; [|discriminate].
    destruct (too_large _ _); [discriminate|]. destruct (retain_packet o1 id off len) as [o2|]; [|discriminate].
    inversion G; subst s2 op. clear G. cbn [op_pid s_rt set_rt set_ob]. rewrite Er.
    split; [reflexivity|]. split.
    - apply negb_false_iff in Ecp. cbn [andb] in Ecp. unfold sess_can_publish in Ecp. rewrite Er in Ecp.
      destruct q; [contradiction|apply andb_prop in Ecp; destruct Ecp as [Ecp _]; apply negb_true_iff in Ecp; apply N.eqb_neq; exact Ecp
                  |apply andb_prop in Ecp; destruct Ecp as [Ecp _]; apply negb_true_iff in Ecp; apply N.eqb_neq; exact Ecp].
    - intros I. destruct (next_packet_id_fresh s s1 id (inv_ob _ I) (inv_pid _ I) En) as [[_ Hid] _]. lia. }
  destruct q eqn:Eq.
  - destruct (negb (true && sess_can_publish s Q0)); [discriminate|].
    match type of H with context [enc_publish ?c ?x] => destruct (enc_publish c x) end; [|discriminate].
    destruct (too_large _ _); [discriminate|]. discriminate.
  - destruct (next_packet_id s) as [s1 id] eqn:En. apply (Hq s1 id eq_refl H). discriminate.
  - destruct (next_packet_id s) as [s1 id] eqn:En. apply (Hq s1 id eq_refl H). discriminate.
Qed.

(* ---------------------------------------------------------------- an idle session accepts every publish that fits *)
Lemma publish_accepted_idle : forall s r q,
  ob_ret (s_ob s) = [] -> rt_mps (s_rt s) = None -> rt_quota (s_rt s) <> 0 -> 5 <= ob_cap (s_ob s) ->
  props_valid_for (pr_props r) CtxPublish = true -> effective_qos s (pr_qos r) = q -> q <> Q0 ->
  (forall id, exists off bs, enc_publish (ob_cap (s_ob s)) (pub_request r q id) = SOk off bs) ->
  exists s2 op, publish_middle s true r = (s2, MRetained op).
Proof.
  intros s r q Hret Hmps Hquota Hcap Hvalid Hq Hq0 Henc.
  unfold publish_middle. rewrite Hvalid. cbn [negb]. rewrite Hq.
  destruct (next_packet_id s) as [s1 id] eqn:En.
  pose proof (next_packet_id_ob s) as [Eo Er]. rewrite En in Eo, Er. cbn [fst] in Eo, Er.
  assert (Hfull : retained_full (s_ob s1) = false) by (unfold retained_full; rewrite Eo, Hret; reflexivity).
  assert (Hcan : sess_can_publish s1 q = true).
  { unfold sess_can_publish. rewrite Er, Eo. unfold can_retain, scratch_len, used_after_compact. rewrite Hret. cbn [map sumN].
    rewrite N.sub_0_r. apply N.eqb_neq in Hquota. rewrite Hquota. cbn [negb andb].
    change (glen [] <? MAX_RETAINED) with true. cbn [andb]. unfold MAX_FIXED_HEADER_SIZE.
    destruct q; [contradiction| |]; apply N.leb_le; exact Hcap. }
  assert (Hcompact : compact (s_ob s1) = {| ob_buf := ob_buf (s_ob s); ob_used := 0; ob_ctl := ob_ctl (s_ob s); ob_ret := []; ob_rel := ob_rel (s_ob s) |}).
  { rewrite Eo. unfold compact. rewrite Hret. reflexivity. }
  destruct (Henc id) as [off [bs Hb]].
  assert (Hen : encode_at (s_ob s1) (fun cap => enc_publish cap (pub_request r q id)) =
                ({| ob_buf := overwrite (ob_buf (s_ob s)) (0 + off) bs; ob_used := 0; ob_ctl := ob_ctl (s_ob s); ob_ret := []; ob_rel := ob_rel (s_ob s) |},
                 EOk (0 + off) (lenN bs))).
  { unfold encode_at. rewrite Hcompact. cbn [ob_used ob_cap ob_buf ob_ctl ob_ret ob_rel]. unfold ob_cap in Hb.
    unfold ob_cap. cbn [ob_buf]. rewrite N.sub_0_r, Hb. reflexivity. }
  destruct q; [contradiction| |];
    rewrite Hfull, Hcan; cbn [andb negb]; cbv zeta; unfold pub_request in Hen; rewrite Hen;
    cbn [set_ob s_rt]; rewrite Er, Hmps; cbn [too_large]; unfold retain_packet; cbn [ob_ret];
    change (MAX_RETAINED <=? glen []) with false; cbv iota; eexists; eexists; reflexivity.
Qed.

(* ---------------------------------------------------------------- one QoS 1 exchange leads from idle to idle *)
Theorem qos1_exchange_idle : forall w r s2 op ps,
  Idle w ->
  publish_middle (w_sess w) true r = (s2, MRetained op) ->
  effective_qos (w_sess w) (pr_qos r) = Q1 -> pr_props r = PSlice ps -> op_pid op < 65536 ->
  exists w1 w2 bs cap off,
    op_publish FUEL r w = (w1, ODone (Some op)) /\
    enc_publish cap (pub_request r Q1 (op_pid op)) = SOk off bs /\ w_wire w1 = w_wire w ++ bs /\
    op_poll FUEL w1 = (w2, ODone None) /\ w_wire w2 = w_wire w1 /\ w_now w2 = w_now w /\
    has_retained (s_ob (w_sess w2)) (op_pid op) = false /\
    rt_quota (s_rt (w_sess w2)) = N.min (N.min (rt_quota (s_rt (w_sess w)) - 1 + 1) 65535) (rt_maxquota (s_rt (w_sess w))) /\
    rt_maxquota (s_rt (w_sess w2)) = rt_maxquota (s_rt (w_sess w)) /\ rt_quota (s_rt (w_sess w)) <> 0 /\
    ob_cap (s_ob (w_sess w2)) = ob_cap (s_ob (w_sess w)) /\
    rt_maxqos (s_rt (w_sess w2)) = rt_maxqos (s_rt (w_sess w)) /\
    Idle w2.
Proof.
  intros w r s2 op ps [Hcw [Ec [El [Er [Hka [Hnp [Hpt [Hbr [Htx [Hiq [Hla [Hrd [Hrp Hcap]]]]]]]]]]]]] Hm Hq1 Hps Hid.
  destruct (publish_is_sent_and_answered_rt w r s2 op ps Q1 Hcw Ec El Er Hka Hnp Hpt Hbr Htx Hiq Hla Hm Hq1 ltac:(discriminate) Hps Hid)
    as [w1 [bs [cap [off [e [E1 [Hb [Hw1 [Hi1 [Hc1 [R1 [N1 [Br1 [Tx1 [La1 [Ka1 [Np1 [Pt1 [Ec1 [El1 [Er1 [Epid [Rt1 Bu1]]]]]]]]]]]]]]]]]]]]]]].
  pose proof Hc1 as [Hs1 [Hl1 [I1 [Mps1 _]]]].
  destruct (publish_middle_retained_rt _ _ _ _ Hm) as [Rt2 [Hq0 _]].
  pose proof Hcw as [_ [_ [I0 _]]].
  destruct (publish_middle_quiescent _ _ _ _ (proj1 I0) Ec El Er Hm) as [_ [_ [_ [_ [_ [_ [_ [_ [_ [_ [_ [_ [_ [_ [_ Hlen2]]]]]]]]]]]]]]].
  assert (K1 : rcap (rd w1) = rcap (rd w)) by (unfold rd; rewrite R1; reflexivity).
  assert (H2 : rdata (rd w1) = []) by (unfold rd; rewrite R1; exact Hrd).
  assert (H3 : rplen (rd w1) = None) by (unfold rd; rewrite R1; exact Hrp).
  assert (H5 : next_step (s_ob (w_sess w1)) = None) by (eapply single_sent_no_step; eassumption).
  set (s3 := set_reader (w_sess w1) (reader_reset (rd w1))).
  assert (Er3 : ob_ret (s_ob s3) = [sent_entry e]) by exact Er1.
  pose proof (handle_puback_single s3 e (op_pid op) Er3 Epid) as Hh.
  set (s4 := set_rt (set_ob s3 (compact {| ob_buf := ob_buf (s_ob s3); ob_used := ob_used (s_ob s3); ob_ctl := ob_ctl (s_ob s3); ob_ret := []; ob_rel := ob_rel (s_ob s3) |}))
                    (quota_inc (s_rt s3))) in *.
  assert (Eo4 : s_ob s4 = compact {| ob_buf := ob_buf (s_ob (w_sess w1)); ob_used := ob_used (s_ob (w_sess w1)); ob_ctl := []; ob_ret := []; ob_rel := [] |}).
  { unfold s4. cbn [set_rt s_ob set_ob]. unfold s3. cbn [set_reader s_ob]. rewrite Ec1, El1. reflexivity. }
  assert (Hn4 : next_step (s_ob s4) = None) by (rewrite Eo4; reflexivity).
  destruct (u16_be_two (op_pid op)) as [a [b Eab]].
  assert (Hrl : varint_write (lenN (u16_be (op_pid op))) = Some [2]) by (rewrite lenN_u16; reflexivity).
  assert (Hlen : lenN (64 :: [2] ++ u16_be (op_pid op)) = 4) by (rewrite lenN_cons, lenN_app, lenN_u16; reflexivity).
  destruct (poll_handles_arrived_full w1 64 [2] (u16_be (op_pid op)) (w_now w) (RPubAck (op_pid op) 0) s4 Hrl)
    as [w2 [E2 [S2 [L2 [Q2 [N2 [C2 [W2 B2]]]]]]]]; try assumption.
  - rewrite Hlen, K1. lia.
  - rewrite Hlen. lia.
  - rewrite N1. apply N.le_refl.
  - apply from_buffer_puback4. exact Hid.
  - exists w1, w2, bs, cap, off. split; [exact E1|]. split; [exact Hb|]. split; [exact Hw1|]. split; [exact E2|].
    split; [exact W2|]. split; [rewrite N2; exact N1|].
    split; [rewrite S2, Eo4; reflexivity|].
    split; [rewrite S2; unfold s4; cbn [set_rt s_rt quota_inc rt_with_quota rt_quota rt_maxquota]; unfold s3; cbn [set_reader s_rt];
            rewrite Rt1, Rt2; reflexivity|].
    split; [rewrite S2; unfold s4; cbn [set_rt s_rt quota_inc rt_with_quota rt_maxquota]; unfold s3; cbn [set_reader s_rt];
            rewrite Rt1, Rt2; reflexivity|].
    split; [exact Hq0|].
    split; [rewrite S2, Eo4; unfold ob_cap; cbn [compact compact_go ob_buf]; rewrite Bu1; exact Hlen2|].
    split; [rewrite S2; unfold s4; cbn [set_rt s_rt quota_inc rt_with_quota rt_maxqos]; unfold s3; cbn [set_reader s_rt];
            rewrite Rt1, Rt2; reflexivity|].
    assert (A1 : w_now w <= w_now w1) by (rewrite N1; apply N.le_refl).
    assert (A2 : 6 <= rcap (rd w1)) by (rewrite K1; exact Hcap).
    assert (A3 : sstep s3 (LPacket (ack_type_ok s3 (RPubAck (op_pid op) 0))) s4).
    { replace s4 with (fst (handle_packet s3 (RPubAck (op_pid op) 0))) by (rewrite Hh; reflexivity). apply SS_packet. }
    assert (A4 : s_reader s4 = reader_reset (rd w1)) by reflexivity.
    assert (A5 : rt_mps (s_rt s4) = None) by exact Mps1.
    assert (A6 : rt_ka_ms (s_rt s4) = 0) by exact Ka1.
    assert (A7 : rt_next_ping (s_rt s4) = None) by exact Np1.
    assert (A8 : rt_ping_timeout (s_rt s4) = None) by exact Pt1.
    exact (idle_after_ack w1 w2 s4 e (w_now w) Hc1 Ec1 El1 Er1 Ka1 Np1 Pt1 Br1 Tx1 La1 A1 A2 (RPubAck (op_pid op) 0) A3 A4 Eo4 A5 A6 A7 A8 S2 L2 Q2 N2 C2 B2).
Qed.


(* ---------------------------------------------------------------- histories of any length *)
Definition IdleQ (w : world) : Prop :=
  Idle w /\ 1 <= rt_quota (s_rt (w_sess w)) /\ rt_quota (s_rt (w_sess w)) <= rt_maxquota (s_rt (w_sess w)) /\
  rt_maxquota (s_rt (w_sess w)) <= 65535 /\ 5 <= ob_cap (s_ob (w_sess w)).

(* the application's side of a history: every request is valid, is a QoS 1 publish as far as the session it meets is concerned,
   and its packet fits the transmit buffer (whatever identifier it gets) *)
Fixpoint wanted (cap : N) (rs : list pub_req) (w : world) : Prop :=
  match rs with
  | [] => True
  | r :: t =>
      props_valid_for (pr_props r) CtxPublish = true /\ (exists ps, pr_props r = PSlice ps) /\
      effective_qos (w_sess w) (pr_qos r) = Q1 /\
      (forall id, exists off bs, enc_publish cap (pub_request r Q1 id) = SOk off bs) /\
      forall w1 o w2, op_publish FUEL r w = (w1, ODone o) -> op_poll FUEL w1 = (w2, ODone None) -> wanted cap t w2
  end.

(* what happens: publish() returns a handle and has put exactly the encoded PUBLISH on the wire, the following poll() writes
   nothing and leaves the handle complete — for every request of the history in turn *)
Inductive q1_history : world -> list pub_req -> world -> Prop :=
| q1h_nil : forall w, q1_history w [] w
| q1h_cons : forall w r rs op w1 w2 w' cap off bs,
    op_publish FUEL r w = (w1, ODone (Some op)) ->
    enc_publish cap (pub_request r Q1 (op_pid op)) = SOk off bs -> w_wire w1 = w_wire w ++ bs ->
    op_poll FUEL w1 = (w2, ODone None) -> w_wire w2 = w_wire w1 ->
    has_retained (s_ob (w_sess w2)) (op_pid op) = false ->
    q1_history w2 rs w' -> q1_history w (r :: rs) w'.

Theorem qos1_history_completes : forall rs w,
  IdleQ w -> wanted (ob_cap (s_ob (w_sess w))) rs w ->
  exists w', q1_history w rs w' /\ IdleQ w' /\ w_now w' = w_now w.
Proof.
  induction rs as [|r rs IH]; intros w HI HW.
  - exists w. split; [constructor|]. split; [exact HI|reflexivity].
  - destruct HI as [Hi [Hq1 [Hq2 [Hq3 Hcap]]]].
    cbn [wanted] in HW. destruct HW as [Hv [[ps Hps] [He [Henc Hnext]]]].
    pose proof Hi as [Hcw [_ [_ [Er [_ [_ [_ _]]]]]]]. pose proof Hcw as [_ [_ [I0 [Hmps _]]]].
    assert (Hq0 : rt_quota (s_rt (w_sess w)) <> 0) by lia.
    destruct (publish_accepted_idle (w_sess w) r Q1 Er Hmps Hq0 Hcap Hv He ltac:(discriminate) Henc) as [s2 [op Hm]].
    destruct (publish_middle_retained_rt _ _ _ _ Hm) as [_ [_ Hid]]. specialize (Hid (proj1 I0)).
    destruct (qos1_exchange_idle w r s2 op ps Hi Hm He Hps Hid)
      as [w1 [w2 [bs [cap [off [E1 [Hb [Hw1 [E2 [Hw2 [Hn2 [Hr2 [Hqu [Hmq [_ [Hc2 [_ Hi2]]]]]]]]]]]]]]]]].
    assert (HI2 : IdleQ w2).
    { split; [exact Hi2|]. rewrite Hqu, Hmq, Hc2. repeat split; try assumption; lia. }
    specialize (Hnext w1 (Some op) w2 E1 E2). rewrite <- Hc2 in Hnext.
    destruct (IH w2 HI2 Hnext) as [w' [Hh [HI' Hn']]].
    exists w'. split; [econstructor; eassumption|]. split; [exact HI'|]. rewrite Hn'. exact Hn2.
Qed.

(* ---------------------------------------------------------------- the hypotheses are met: two publishes on a fresh connection *)
Definition ex_h1 : world := fst (op_poll FUEL (fst (op_publish FUEL ex_pub ex_b1))).

Lemma ex_pub_fits : forall cap id, cap = 128 -> exists off bs, enc_publish cap (pub_request ex_pub Q1 id) = SOk off bs.
Proof. intros cap id ->. eexists. eexists. vm_compute. reflexivity. Qed.

Example history_hyps_met :
  IdleQ ex_b1 /\ wanted (ob_cap (s_ob (w_sess ex_b1))) [ex_pub; ex_pub] ex_b1.
Proof.
  destruct exchange_hyps_met as [Hcw [Ec [El [Er [A1 [A2 [Pt [A3 [A4 [A5 [A6 [A7 [A8 [_ [_ [A11 _]]]]]]]]]]]]]]]].
  assert (A9 : 6 <= rcap (rd ex_b1)) by (vm_compute; intros X; discriminate X).
  assert (Qa : 1 <= rt_quota (s_rt (w_sess ex_b1))) by (vm_compute; intros X; discriminate X).
  assert (Q2 : rt_quota (s_rt (w_sess ex_b1)) <= rt_maxquota (s_rt (w_sess ex_b1))) by (vm_compute; intros X; discriminate X).
  assert (Q3 : rt_maxquota (s_rt (w_sess ex_b1)) <= 65535) by (vm_compute; intros X; discriminate X).
  assert (Cp : ob_cap (s_ob (w_sess ex_b1)) = 128) by (vm_compute; reflexivity).
  assert (Q4 : 5 <= ob_cap (s_ob (w_sess ex_b1))) by (vm_compute; intros X; discriminate X).
  assert (V : props_valid_for (pr_props ex_pub) CtxPublish = true) by (vm_compute; reflexivity).
  assert (B11 : effective_qos (w_sess ex_h1) (pr_qos ex_pub) = Q1) by (vm_compute; reflexivity).
  split.
  - split; [|split; [exact Qa|split; [exact Q2|split; [exact Q3|exact Q4]]]].
    unfold Idle. repeat (split; [assumption|]). exact A9.
  - cbn [wanted]. split; [exact V|]. split; [exists []; reflexivity|]. split; [exact A11|].
    split; [intros id; apply ex_pub_fits; exact Cp|].
    intros w1 o w2 H1 H2.
    assert (W1 : w1 = fst (op_publish FUEL ex_pub ex_b1)) by exact (eq_sym (f_equal fst H1)).
    assert (W2 : w2 = fst (op_poll FUEL w1)) by exact (eq_sym (f_equal fst H2)).
    assert (W3 : w2 = ex_h1) by (unfold ex_h1; exact (eq_trans W2 (f_equal (fun x => fst (op_poll FUEL x)) W1))).
    clear H1 H2 W1 W2. subst w2.
    split; [exact V|]. split; [exists []; reflexivity|]. split; [exact B11|].
    split; [intros id; apply ex_pub_fits; exact Cp|].
    intros; exact I.
Qed.

(* ---------------------------------------------------------------- SUBSCRIBE / UNSUBSCRIBE exchanges lead from idle to idle *)
(* the part common to both: the freshly retained request is drained, the broker answers with a six byte acknowledgement that
   names its identifier, the next poll() takes it and leaves the session idle, window and arena as they were *)
Lemma enqueued_exchange_idle : forall f w s2 e bs h rl rest hd p pid cap0 off0 (enc : N -> sres),
  Idle w -> WInv s2 -> pid < 65536 ->
  enc cap0 = SOk off0 bs ->
  ob_ctl (s_ob s2) = [] -> ob_rel (s_ob s2) = [] -> ob_ret (s_ob s2) = [e] ->
  re_pid e = pid -> sliceN (re_off e) (re_len e) (ob_buf (s_ob s2)) = bs -> re_st e = SWrite 0 ->
  pframe (w_sess w) s2 -> s_rt s2 = s_rt (w_sess w) -> s_reader s2 = s_reader (w_sess w) ->
  lenN (ob_buf (s_ob s2)) = lenN (ob_buf (s_ob (w_sess w))) ->
  bs = h :: rl ++ u16_be pid ++ rest -> varint_write (lenN (u16_be pid ++ rest)) = Some rl ->
  broker_reply 1 bs = hd :: [4] ++ u16_be pid ++ [0; 0] ->
  from_buffer (hd :: [4] ++ u16_be pid ++ [0; 0]) = Some p ->
  (forall s, ob_ret (s_ob s) = [sent_entry e] ->
     handle_packet s p = (set_ob s (compact {| ob_buf := ob_buf (s_ob s); ob_used := ob_used (s_ob s); ob_ctl := ob_ctl (s_ob s); ob_ret := []; ob_rel := ob_rel (s_ob s) |}), HOk false)) ->
  exists w3 w4,
    flush_outbound (S (S f)) (upd_sess w s2) = (w3, ODone tt) /\ w_wire w3 = w_wire w ++ bs /\
    op_poll FUEL w3 = (w4, ODone None) /\ w_wire w4 = w_wire w3 /\ w_now w4 = w_now w /\
    has_retained (s_ob (w_sess w4)) pid = false /\
    s_rt (w_sess w4) = s_rt (w_sess w) /\ ob_cap (s_ob (w_sess w4)) = ob_cap (s_ob (w_sess w)) /\
    Idle w4.
Proof.
  intros f w s2 e bs h rl rest hd p pid cap0 off0 enc
         [Hcw [Ec [El [Er [Hka [Hnp [Hpt [Hbr [Htx [Hiq [Hla [Hrd [Hrp Hcap]]]]]]]]]]]]] I2 Hid Hb Ec2 El2 Er2 Epid Ebs Est Hpf Hrt2 Hrd2 Hlen2 Elay Hrl Hrep Hdec Hh.
  pose proof Hcw as [Hs [Hl [I [Hmps [_ [HB HF]]]]]].
  assert (Hq : PQ w) by (split; [unfold should_queue_pingreq; rewrite Hpt, Hnp; reflexivity|apply calm_nil; exact Hs]).
  set (w2 := upd_sess w s2).
  assert (Hc2 : Hc w2).
  { unfold Hc. cbn [w2 w_script w_live w_sess w_now upd_sess]. rewrite Hrt2.
    split; [exact Hs|]. split; [exact Hl|]. split; [exact I2|]. split; [exact Hmps|].
    split; [rewrite Hpt; intros d E; discriminate E|]. split; [rewrite Hlen2; exact HB|].
    unfold Fr. rewrite Ec2, El2, Er2. repeat split; try constructor; [rewrite Est; reflexivity|constructor]. }
  assert (Q2 : PQ w2) by (split; [cbn [w2 w_sess w_now upd_sess]; rewrite (pframe_sq _ _ Hpf); exact (proj1 Hq)|apply calm_nil; exact Hs]).
  destruct (drain_single_retained_rt f w2 e bs h rl (u16_be pid ++ rest) (hd :: [4] ++ u16_be pid ++ [0; 0])
              Hc2 Q2 Ec2 El2 Er2 Est Ebs Elay Hrl Hrep ltac:(discriminate)
              ltac:(cbn [w2 w_sess upd_sess]; rewrite Hrt2; exact Hka) ltac:(cbn [w2 w_sess upd_sess]; rewrite Hrt2; exact Hpt)
              Hbr Htx Hiq Hla)
    as [w3 [E3 [Hw3 [Hi3 [Hc3 [R3 [N3 [Np3 [Pt3 [Ec3 [El3 [Er3 [_ [Br3 [Tx3 [La3 [Rt3 Bu3]]]]]]]]]]]]]]]]].
  cbn [w2 w_sess w_wire w_now upd_sess] in Hw3, N3, La3, Rt3, Bu3, R3.
  pose proof Hc3 as [Hs3 [Hl3 [I3 [Mps3 _]]]].
  assert (Ka3 : rt_ka_ms (s_rt (w_sess w3)) = 0).
  { rewrite Rt3. cbn [note_outbound_activity rt_with_timers rt_ka_ms]. rewrite Hrt2. exact Hka. }
  assert (K3 : rcap (rd w3) = rcap (rd w)) by (unfold rd; rewrite R3, Hrd2; reflexivity).
  assert (H2 : rdata (rd w3) = []) by (unfold rd; rewrite R3, Hrd2; exact Hrd).
  assert (H3 : rplen (rd w3) = None) by (unfold rd; rewrite R3, Hrd2; exact Hrp).
  assert (H5 : next_step (s_ob (w_sess w3)) = None) by (eapply single_sent_no_step; eassumption).
  set (s3 := set_reader (w_sess w3) (reader_reset (rd w3))).
  assert (Er3' : ob_ret (s_ob s3) = [sent_entry e]) by exact Er3.
  pose proof (Hh s3 Er3') as Hh3.
  set (s4 := set_ob s3 (compact {| ob_buf := ob_buf (s_ob s3); ob_used := ob_used (s_ob s3); ob_ctl := ob_ctl (s_ob s3); ob_ret := []; ob_rel := ob_rel (s_ob s3) |})) in *.
  assert (Eo4 : s_ob s4 = compact {| ob_buf := ob_buf (s_ob (w_sess w3)); ob_used := ob_used (s_ob (w_sess w3)); ob_ctl := []; ob_ret := []; ob_rel := [] |}).
  { unfold s4. cbn [s_ob set_ob]. unfold s3. cbn [set_reader s_ob]. rewrite Ec3, El3. reflexivity. }
  assert (Hn4 : next_step (s_ob s4) = None) by (rewrite Eo4; reflexivity).
  assert (Hbody : lenN (u16_be pid ++ [0; 0]) = 4) by (rewrite lenN_app, lenN_u16; reflexivity).
  assert (Hrl4 : varint_write (lenN (u16_be pid ++ [0; 0])) = Some [4]) by (rewrite Hbody; reflexivity).
  assert (Hlen : lenN (hd :: [4] ++ u16_be pid ++ [0; 0]) = 6) by (cbn [app]; rewrite !lenN_cons, Hbody; reflexivity).
  destruct (poll_handles_arrived_full w3 hd [4] (u16_be pid ++ [0; 0]) (w_now w) p s4 Hrl4)
    as [w4 [E4 [S4 [L4 [Q4 [N4 [C4 [W4 B4]]]]]]]]; try assumption.
  - rewrite Hlen, K3. exact Hcap.
  - rewrite Hlen. lia.
  - rewrite N3. apply N.le_refl.
  - exists w3, w4. split; [exact E3|]. split; [exact Hw3|]. split; [exact E4|]. split; [exact W4|].
    split; [rewrite N4; exact N3|].
    split; [rewrite S4, Eo4; reflexivity|].
    split; [rewrite S4; unfold s4, s3; cbn [set_ob set_reader s_rt]; rewrite Rt3, Hrt2;
            unfold note_outbound_activity, keepalive_send_interval; rewrite Hka, Hpt; cbn [N.eqb];
            destruct (s_rt (w_sess w)) as [a1 a2 a3 a4 a5 a6 a7 a8] eqn:Ert; cbn [rt_with_timers rt_ping_timeout] in *;
            cbn [rt_next_ping rt_ping_timeout] in Hnp, Hpt; rewrite Hnp, Hpt; reflexivity|].
    split; [rewrite S4, Eo4; unfold ob_cap; cbn [compact compact_go ob_buf]; rewrite Bu3; exact Hlen2|].
    assert (A1 : w_now w <= w_now w3) by (rewrite N3; apply N.le_refl).
    assert (A2 : 6 <= rcap (rd w3)) by (rewrite K3; exact Hcap).
    assert (A3 : sstep s3 (LPacket (ack_type_ok s3 p)) s4).
    { replace s4 with (fst (handle_packet s3 p)) by (rewrite Hh3; reflexivity). apply SS_packet. }
    assert (A4 : s_reader s4 = reader_reset (rd w3)) by reflexivity.
    assert (A5 : rt_mps (s_rt s4) = None) by exact Mps3.
    assert (A6 : rt_ka_ms (s_rt s4) = 0) by exact Ka3.
    assert (A7 : rt_next_ping (s_rt s4) = None) by exact Np3.
    assert (A8 : rt_ping_timeout (s_rt s4) = None) by exact Pt3.
    exact (idle_after_ack w3 w4 s4 e (w_now w) Hc3 Ec3 El3 Er3 Ka3 Np3 Pt3 Br3 Tx3 La3 A1 A2 p A3 A4 Eo4 A5 A6 A7 A8 S4 L4 Q4 N4 C4 B4).
Qed.

Theorem subscribe_exchange_idle : forall w topics ps s2 op,
  Idle w -> topics <> [] -> props_valid_for (PSlice ps) CtxSubscribe = true ->
  subscribe_middle (w_sess w) topics ps = (s2, MRetained op) -> op_pid op < 65536 ->
  exists w1 w2 bs cap off,
    op_subscribe FUEL topics ps w = (w1, ODone (Some op)) /\
    enc_subscribe cap {| sq_pid := op_pid op; sq_props := ps; sq_topics := topics |} = SOk off bs /\ w_wire w1 = w_wire w ++ bs /\
    op_poll FUEL w1 = (w2, ODone None) /\ w_wire w2 = w_wire w1 /\ w_now w2 = w_now w /\
    has_retained (s_ob (w_sess w2)) (op_pid op) = false /\
    s_rt (w_sess w2) = s_rt (w_sess w) /\ ob_cap (s_ob (w_sess w2)) = ob_cap (s_ob (w_sess w)) /\
    Idle w2.
Proof.
  intros w topics ps s2 op Hi Hne Hval Hm Hid.
  pose proof Hi as [Hcw [Ec [El [Er [Hka [Hnp [Hpt _]]]]]]].
  pose proof Hcw as [Hs [Hl [I _]]].
  assert (Hq : PQ w) by (split; [unfold should_queue_pingreq; rewrite Hpt, Hnp; reflexivity|apply calm_nil; exact Hs]).
  pose proof Hm as Hm0. unfold subscribe_middle in Hm.
  destruct (enqueue_middle_quiescent _ _ _ _ _ (proj1 I) Ec El Er (fun id => enc_subscribe_fits {| sq_pid := id; sq_props := ps; sq_topics := topics |}) Hm)
    as [bs [cap [off [e [Hb [Ec2 [El2 [Er2 [Epid [Ebs [Est [Hpf [Hrt2 [Hrd2 Hlen2]]]]]]]]]]]]]].
  destruct (subscribe_layout _ _ _ _ Hb) as [rl [rest [Elay Hrl]]]. cbn [sq_pid] in Elay, Hrl.
  assert (I2 : WInv s2).
  { replace s2 with (fst (subscribe_middle (w_sess w) topics ps)) by (rewrite Hm0; reflexivity). eapply WInv_step; [apply SS_subscribe|exact I]. }
  destruct FUEL_big as [f Hf].
  destruct (enqueued_exchange_idle (S (S (S f))) w s2 e bs 130 rl rest 144 (RSubAck (op_pid op) [] [0]) (op_pid op) cap off
              (fun c => enc_subscribe c {| sq_pid := op_pid op; sq_props := ps; sq_topics := topics |})
              Hi I2 Hid Hb Ec2 El2 Er2 Epid Ebs Est Hpf Hrt2 Hrd2 Hlen2 Elay Hrl
              ltac:(rewrite Elay; apply broker_reply_sub; exact Hrl) (from_buffer_suback6 _ Hid))
    as [w3 [w4 [E3 [Hw3 [E4 [Hw4 [N4 [R4 [Rt4 [C4 I4]]]]]]]]]].
  { intros s Hs0. apply (handle_suback_single RSubAck s e (op_pid op)); [left; reflexivity|exact Hs0|exact Epid]. }
  assert (E1 : op_subscribe FUEL topics ps w = (w3, ODone (Some op))).
  { unfold op_subscribe. rewrite Hl. cbn [negb]. destruct topics as [|t0 ts]; [contradiction|]. rewrite Hval. cbn [negb].
    rewrite Hf. cbn [flush_outbound]. rewrite (pq_no_ping w Hq), upd_sess_id, (quiescent_no_step _ Ec El Er). cbn [bindu].
    rewrite Hm0. cbn [finish_mid]. rewrite E3. reflexivity. }
  exists w3, w4, bs, cap, off. repeat (split; [assumption|]). assumption.
Qed.

Theorem unsubscribe_exchange_idle : forall w topics ps s2 op,
  Idle w -> topics <> [] -> props_valid_for (PSlice ps) CtxUnsubscribe = true ->
  unsubscribe_middle (w_sess w) topics ps = (s2, MRetained op) -> op_pid op < 65536 ->
  exists w1 w2 bs cap off,
    op_unsubscribe FUEL topics ps w = (w1, ODone (Some op)) /\
    enc_unsubscribe cap {| uq_pid := op_pid op; uq_props := ps; uq_topics := topics |} = SOk off bs /\ w_wire w1 = w_wire w ++ bs /\
    op_poll FUEL w1 = (w2, ODone None) /\ w_wire w2 = w_wire w1 /\ w_now w2 = w_now w /\
    has_retained (s_ob (w_sess w2)) (op_pid op) = false /\
    s_rt (w_sess w2) = s_rt (w_sess w) /\ ob_cap (s_ob (w_sess w2)) = ob_cap (s_ob (w_sess w)) /\
    Idle w2.
Proof.
  intros w topics ps s2 op Hi Hne Hval Hm Hid.
  pose proof Hi as [Hcw [Ec [El [Er [Hka [Hnp [Hpt _]]]]]]].
  pose proof Hcw as [Hs [Hl [I _]]].
  assert (Hq : PQ w) by (split; [unfold should_queue_pingreq; rewrite Hpt, Hnp; reflexivity|apply calm_nil; exact Hs]).
  pose proof Hm as Hm0. unfold unsubscribe_middle in Hm.
  destruct (enqueue_middle_quiescent _ _ _ _ _ (proj1 I) Ec El Er (fun id => enc_unsubscribe_fits {| uq_pid := id; uq_props := ps; uq_topics := topics |}) Hm)
    as [bs [cap [off [e [Hb [Ec2 [El2 [Er2 [Epid [Ebs [Est [Hpf [Hrt2 [Hrd2 Hlen2]]]]]]]]]]]]]].
  destruct (unsubscribe_layout _ _ _ _ Hb) as [rl [rest [Elay Hrl]]]. cbn [uq_pid] in Elay, Hrl.
  assert (I2 : WInv s2).
  { replace s2 with (fst (unsubscribe_middle (w_sess w) topics ps)) by (rewrite Hm0; reflexivity). eapply WInv_step; [apply SS_unsubscribe|exact I]. }
  destruct FUEL_big as [f Hf].
  destruct (enqueued_exchange_idle (S (S (S f))) w s2 e bs 162 rl rest 176 (RUnsubAck (op_pid op) [] [0]) (op_pid op) cap off
              (fun c => enc_unsubscribe c {| uq_pid := op_pid op; uq_props := ps; uq_topics := topics |})
              Hi I2 Hid Hb Ec2 El2 Er2 Epid Ebs Est Hpf Hrt2 Hrd2 Hlen2 Elay Hrl
              ltac:(rewrite Elay; apply broker_reply_unsub; exact Hrl) (from_buffer_unsuback6 _ Hid))
    as [w3 [w4 [E3 [Hw3 [E4 [Hw4 [N4 [R4 [Rt4 [C4 I4]]]]]]]]]].
  { intros s Hs0. apply (handle_suback_single RUnsubAck s e (op_pid op)); [right; reflexivity|exact Hs0|exact Epid]. }
  assert (E1 : op_unsubscribe FUEL topics ps w = (w3, ODone (Some op))).
  { unfold op_unsubscribe. rewrite Hl. cbn [negb]. destruct topics as [|t0 ts]; [contradiction|]. rewrite Hval. cbn [negb].
    rewrite Hf. cbn [flush_outbound]. rewrite (pq_no_ping w Hq), upd_sess_id, (quiescent_no_step _ Ec El Er). cbn [bindu].
    rewrite Hm0. cbn [finish_mid]. rewrite E3. reflexivity. }
  exists w3, w4, bs, cap, off. repeat (split; [assumption|]). assumption.
Qed.

(* ---------------------------------------------------------------- a QoS 2 exchange (publish, poll, poll) leads from idle to idle *)
Lemma idle_after_handled : forall w1 w2 s4 now0 p,
  Hc w1 -> w_broker w1 = 1 -> w_txbuf w1 = [] -> w_last_arrival w1 = now0 -> now0 <= w_now w1 -> 6 <= rcap (rd w1) ->
  sstep (set_reader (w_sess w1) (reader_reset (rd w1))) (LPacket (ack_type_ok (set_reader (w_sess w1) (reader_reset (rd w1))) p)) s4 ->
  s_reader s4 = reader_reset (rd w1) ->
  ob_ctl (s_ob s4) = [] -> ob_rel (s_ob s4) = [] -> ob_ret (s_ob s4) = [] -> lenN (ob_buf (s_ob s4)) <= BIG ->
  rt_mps (s_rt s4) = None -> rt_ka_ms (s_rt s4) = 0 -> rt_next_ping (s_rt s4) = None -> rt_ping_timeout (s_rt s4) = None ->
  w_sess w2 = s4 -> w_live w2 = true -> w_inq w2 = [] -> w_now w2 = w_now w1 -> w_script w2 = [] -> bt w2 = bt w1 ->
  Idle w2.
Proof.
  intros w1 w2 s4 now0 p Hc1 Hbr Htx Hla Hle Hcap Hstep Hrd Ec4 El4 Er4 HB4 Hmps Hka4 Hnp4 Hpt4 S2 L2 Q2 N2 C2 B2.
  pose proof Hc1 as [_ [_ [I1 _]]].
  assert (I4 : WInv s4) by (eapply WInv_step; [exact Hstep|]; eapply WInv_step; [apply SS_reader|exact I1]).
  unfold bt in B2. injection B2 as Bb Bt Bl.
  unfold Idle, Hc, rd. rewrite S2.
  split.
  { split; [exact C2|]. split; [exact L2|]. split; [exact I4|]. split; [exact Hmps|].
    split; [intros d E; rewrite Hpt4 in E; discriminate E|]. split; [exact HB4|].
    unfold Fr. rewrite Ec4, El4, Er4. repeat split; constructor. }
  repeat split; try assumption.
  - rewrite Bb. exact Hbr.
  - rewrite Bt. exact Htx.
  - rewrite Bl, N2, Hla. exact Hle.
  - rewrite Hrd. reflexivity.
  - rewrite Hrd. reflexivity.
  - rewrite Hrd. unfold reader_reset. cbn [rcap]. exact Hcap.
Qed.

Theorem qos2_exchange_idle : forall w r s2 op ps,
  Idle w ->
  publish_middle (w_sess w) true r = (s2, MRetained op) ->
  effective_qos (w_sess w) (pr_qos r) = Q2 -> pr_props r = PSlice ps -> op_pid op < 65536 ->
  exists w1 w2 w3 bs cap off,
    op_publish FUEL r w = (w1, ODone (Some op)) /\
    enc_publish cap (pub_request r Q2 (op_pid op)) = SOk off bs /\ w_wire w1 = w_wire w ++ bs /\
    op_poll FUEL w1 = (w2, ODone None) /\ w_wire w2 = w_wire w1 ++ rel_bytes (op_pid op) 0 /\
    op_poll FUEL w2 = (w3, ODone None) /\ w_wire w3 = w_wire w2 /\ w_now w3 = w_now w /\
    has_retained (s_ob (w_sess w3)) (op_pid op) = false /\ has_pending_release (s_ob (w_sess w3)) (op_pid op) = false /\
    rt_quota (s_rt (w_sess w3)) = N.min (N.min (rt_quota (s_rt (w_sess w)) - 1 + 1) 65535) (rt_maxquota (s_rt (w_sess w))) /\
    rt_maxquota (s_rt (w_sess w3)) = rt_maxquota (s_rt (w_sess w)) /\ rt_quota (s_rt (w_sess w)) <> 0 /\
    ob_cap (s_ob (w_sess w3)) = ob_cap (s_ob (w_sess w)) /\
    rt_maxqos (s_rt (w_sess w3)) = rt_maxqos (s_rt (w_sess w)) /\
    Idle w3.
Proof.
  intros w r s2 op ps [Hcw [Ec [El [Er [Hka [Hnp [Hpt [Hbr [Htx [Hiq [Hla [Hrd [Hrp Hcap]]]]]]]]]]]]] Hm Hq2 Hps Hid.
  destruct (publish_is_sent_and_answered_rt w r s2 op ps Q2 Hcw Ec El Er Hka Hnp Hpt Hbr Htx Hiq Hla Hm Hq2 ltac:(discriminate) Hps Hid)
    as [w1 [bs [cap [off [e [E1 [Hb [Hw1 [Hi1 [Hc1 [R1 [N1 [Br1 [Tx1 [La1 [Ka1 [Np1 [Pt1 [Ec1 [El1 [Er1 [Epid [Rt1 Bu1]]]]]]]]]]]]]]]]]]]]]]].
  destruct (publish_middle_retained_rt _ _ _ _ Hm) as [Rt2 [Hq0 _]].
  pose proof Hcw as [_ [_ [I0 _]]].
  destruct (publish_middle_quiescent _ _ _ _ (proj1 I0) Ec El Er Hm) as [_ [_ [_ [_ [_ [_ [_ [_ [_ [_ [_ [_ [_ [_ [_ Hlen2]]]]]]]]]]]]]]].
  assert (K1 : rcap (rd w1) = rcap (rd w)) by (unfold rd; rewrite R1; reflexivity).
  assert (H1 : 4 <= rcap (rd w1)) by (rewrite K1; lia).
  assert (H2 : rdata (rd w1) = []) by (unfold rd; rewrite R1; exact Hrd).
  assert (H3 : rplen (rd w1) = None) by (unfold rd; rewrite R1; exact Hrp).
  destruct (poll_pubrec_sends_pubrel_rt w1 (op_pid op) e (w_now w) Hc1 Hid H1 H2 H3 Ec1 El1 Er1 Epid Ka1 Np1 Pt1 Br1 Tx1 Hi1
              ltac:(rewrite N1; apply N.le_refl) ltac:(rewrite La1, N1; apply N.le_refl))
    as [w2 [E2 [Hw2 [Hi2 [Hc2 [D2 [P2 [K2 [N2 [Ec2 [Er2 [El2 [Ka2 [Np2 [Pt2 [B2 [T2 [La2 [Qu2 [Mq2 [Bu2 [Mp2 Mqs2]]]]]]]]]]]]]]]]]]]]]].
  pose proof Hc2 as [Hs2 [Hl2 [I2 [_ [_ [HB2 _]]]]]].
  (* the PUBCOMP *)
  set (pid := op_pid op) in *.
  assert (Hrl : varint_write (lenN (u16_be pid)) = Some [2]) by (rewrite lenN_u16; reflexivity).
  assert (Hlen : lenN (112 :: [2] ++ u16_be pid) = 4) by (cbn [app]; rewrite !lenN_cons, lenN_u16; reflexivity).
  assert (Hn2 : next_step (s_ob (w_sess w2)) = None) by (eapply single_rel_sent_no_step; eassumption).
  set (s3 := set_reader (w_sess w2) (reader_reset (rd w2))).
  set (s4 := set_rt (set_ob s3 {| ob_buf := ob_buf (s_ob s3); ob_used := ob_used (s_ob s3); ob_ctl := ob_ctl (s_ob s3); ob_ret := ob_ret (s_ob s3); ob_rel := [] |})
                    (quota_inc (s_rt s3))).
  assert (Hh : handle_packet s3 (RPubComp pid 0) = (s4, HOk false)).
  { cbn [handle_packet]. unfold ack_release. change (ob_rel (s_ob s3)) with (ob_rel (s_ob (w_sess w2))). rewrite El2.
    cbn [remove_first_rel rel_entry le_pid]. rewrite N.eqb_refl. cbn [negb]. change (rc_success 0) with true. reflexivity. }
  assert (Ec4 : ob_ctl (s_ob s4) = []) by exact Ec2.
  assert (El4 : ob_rel (s_ob s4) = []) by reflexivity.
  assert (Er4 : ob_ret (s_ob s4) = []) by exact Er2.
  assert (Hn4 : next_step (s_ob s4) = None) by (apply quiescent_no_step; assumption).
  destruct (poll_handles_arrived_full w2 112 [2] (u16_be pid) (w_now w1) (RPubComp pid 0) s4 Hrl)
    as [w3 [E3 [S3 [L3 [Q3 [N3 [C3 [W3 B3]]]]]]]]; try assumption.
  - rewrite Hlen, K2. exact H1.
  - rewrite Hlen. lia.
  - rewrite N2. apply N.le_refl.
  - exact (from_buffer_pubcomp4 pid Hid).
  - exists w1, w2, w3, bs, cap, off. split; [exact E1|]. split; [exact Hb|]. split; [exact Hw1|]. split; [exact E2|]. split; [exact Hw2|].
    split; [exact E3|]. split; [exact W3|]. split; [rewrite N3, N2; exact N1|].
    split; [rewrite S3; unfold has_retained; rewrite Er4; reflexivity|].
    split; [rewrite S3; unfold has_pending_release; rewrite El4; reflexivity|].
    split; [rewrite S3; unfold s4; cbn [set_rt s_rt quota_inc rt_with_quota rt_quota rt_maxquota]; unfold s3; cbn [set_reader s_rt];
            rewrite Qu2, Mq2, Rt1, Rt2; reflexivity|].
    split; [rewrite S3; unfold s4; cbn [set_rt s_rt quota_inc rt_with_quota rt_maxquota]; unfold s3; cbn [set_reader s_rt];
            rewrite Mq2, Rt1, Rt2; reflexivity|].
    split; [exact Hq0|].
    split; [rewrite S3; unfold ob_cap, s4; cbn [set_rt set_ob s_ob ob_buf]; unfold s3; cbn [set_reader s_ob]; rewrite Bu2, Bu1; exact Hlen2|].
    split; [rewrite S3; unfold s4; cbn [set_rt s_rt quota_inc rt_with_quota rt_maxqos]; unfold s3; cbn [set_reader s_rt];
            rewrite Mqs2, Rt1, Rt2; reflexivity|].
    assert (A1 : w_now w1 <= w_now w2) by (rewrite N2; apply N.le_refl).
    assert (A2 : 6 <= rcap (rd w2)) by (rewrite K2, K1; exact Hcap).
    assert (A3 : sstep s3 (LPacket (ack_type_ok s3 (RPubComp pid 0))) s4).
    { replace s4 with (fst (handle_packet s3 (RPubComp pid 0))) by (rewrite Hh; reflexivity). apply SS_packet. }
    assert (A4 : s_reader s4 = reader_reset (rd w2)) by reflexivity.
    assert (A5 : lenN (ob_buf (s_ob s4)) <= BIG) by exact HB2.
    assert (A6 : rt_mps (s_rt s4) = None) by exact Mp2.
    assert (A7 : rt_ka_ms (s_rt s4) = 0) by exact Ka2.
    assert (A8 : rt_next_ping (s_rt s4) = None) by exact Np2.
    assert (A9 : rt_ping_timeout (s_rt s4) = None) by exact Pt2.
    exact (idle_after_handled w2 w3 s4 (w_now w1) (RPubComp pid 0) Hc2 B2 T2 La2 A1 A2 A3 A4 Ec4 El4 Er4 A5 A6 A7 A8 A9 S3 L3 Q3 N3 C3 B3).
Qed.

(* ---------------------------------------------------------------- histories mixing all four acknowledged operations *)
Lemma enqueue_accepted_idle : forall s kind enc,
  ob_ret (s_ob s) = [] -> rt_mps (s_rt s) = None ->
  (forall id, exists off bs, enc (ob_cap (s_ob s)) id = SOk off bs) ->
  exists s2 op, enqueue_middle s kind enc = (s2, MRetained op).
Proof.
  intros s kind enc Hret Hmps Henc. unfold enqueue_middle.
  assert (Hfull : retained_full (s_ob s) = false) by (unfold retained_full; rewrite Hret; reflexivity).
  rewrite Hfull.
  destruct (next_packet_id s) as [s1 id] eqn:En.
  pose proof (next_packet_id_ob s) as [Eo Er]. rewrite En in Eo, Er. cbn [fst] in Eo, Er.
  assert (Hcompact : compact (s_ob s1) = {| ob_buf := ob_buf (s_ob s); ob_used := 0; ob_ctl := ob_ctl (s_ob s); ob_ret := []; ob_rel := ob_rel (s_ob s) |}).
  { rewrite Eo. unfold compact. rewrite Hret. reflexivity. }
  destruct (Henc id) as [off [bs Hb]].
  assert (Hen : encode_at (s_ob s1) (fun cap => enc cap id) =
                ({| ob_buf := overwrite (ob_buf (s_ob s)) (0 + off) bs; ob_used := 0; ob_ctl := ob_ctl (s_ob s); ob_ret := []; ob_rel := ob_rel (s_ob s) |},
                 EOk (0 + off) (lenN bs))).
  { unfold encode_at. rewrite Hcompact. cbn [ob_used ob_cap ob_buf ob_ctl ob_ret ob_rel]. unfold ob_cap in Hb.
    unfold ob_cap. cbn [ob_buf]. rewrite N.sub_0_r, Hb. reflexivity. }
  rewrite Hen. cbn [set_ob s_rt]. rewrite Er, Hmps. cbn [too_large]. unfold retain_packet. cbn [ob_ret].
  change (MAX_RETAINED <=? glen []) with false. cbv iota. eexists. eexists. reflexivity.
Qed.

Lemma enqueue_middle_pid_ok : forall s kind enc s2 op, Inv s -> enqueue_middle s kind enc = (s2, MRetained op) -> op_pid op < 65536.
Proof.
  intros s kind enc s2 op I H. unfold enqueue_middle in H.
  destruct (retained_full (s_ob s)); [discriminate|].
  destruct (next_packet_id s) as [s1 id] eqn:En.
  destruct (next_packet_id_fresh s s1 id (inv_ob _ I) (inv_pid _ I) En) as [[_ Hid] _].
  destruct (encode_at (s_ob s1) _) as [o1 er]. destruct er as [off len|e]; [|discriminate].
  destruct (too_large _ _); [discriminate|]. destruct (retain_packet o1 id off len); [|discriminate].
  inversion H; subst. cbn [op_pid]. lia.
Qed.

Inductive request :=
| ReqPublish (r : pub_req)
| ReqSubscribe (topics : list (bytes * sub_opts)) (ps : list prop)
| ReqUnsubscribe (topics : list bytes) (ps : list prop).

(* what the application asks of a request: valid, fitting the transmit buffer, and (publishes) QoS 1 or 2 for the session it meets *)
Definition request_ok (cap : N) (w : world) (q : request) : Prop :=
  match q with
  | ReqPublish r =>
      props_valid_for (pr_props r) CtxPublish = true /\ (exists ps, pr_props r = PSlice ps) /\
      effective_qos (w_sess w) (pr_qos r) <> Q0 /\
      (forall id, exists off bs, enc_publish cap (pub_request r (effective_qos (w_sess w) (pr_qos r)) id) = SOk off bs)
  | ReqSubscribe topics ps =>
      topics <> [] /\ props_valid_for (PSlice ps) CtxSubscribe = true /\
      (forall id, exists off bs, enc_subscribe cap {| sq_pid := id; sq_props := ps; sq_topics := topics |} = SOk off bs)
  | ReqUnsubscribe topics ps =>
      topics <> [] /\ props_valid_for (PSlice ps) CtxUnsubscribe = true /\
      (forall id, exists off bs, enc_unsubscribe cap {| uq_pid := id; uq_props := ps; uq_topics := topics |} = SOk off bs)
  end.

(* one complete exchange: the operation returns its handle, then poll() is called until the handle is complete (twice for QoS 2) *)
Inductive exchange : world -> request -> op -> world -> Prop :=
| ex_q1 : forall w r op w1 w2, effective_qos (w_sess w) (pr_qos r) = Q1 ->
    op_publish FUEL r w = (w1, ODone (Some op)) -> op_poll FUEL w1 = (w2, ODone None) -> exchange w (ReqPublish r) op w2
| ex_q2 : forall w r op w1 w2 w3, effective_qos (w_sess w) (pr_qos r) = Q2 ->
    op_publish FUEL r w = (w1, ODone (Some op)) -> op_poll FUEL w1 = (w2, ODone None) -> op_poll FUEL w2 = (w3, ODone None) ->
    exchange w (ReqPublish r) op w3
| ex_sub : forall w topics ps op w1 w2,
    op_subscribe FUEL topics ps w = (w1, ODone (Some op)) -> op_poll FUEL w1 = (w2, ODone None) -> exchange w (ReqSubscribe topics ps) op w2
| ex_unsub : forall w topics ps op w1 w2,
    op_unsubscribe FUEL topics ps w = (w1, ODone (Some op)) -> op_poll FUEL w1 = (w2, ODone None) -> exchange w (ReqUnsubscribe topics ps) op w2.

Fixpoint wanted_all (cap : N) (qs : list request) (w : world) : Prop :=
  match qs with
  | [] => True
  | q :: t => request_ok cap w q /\ forall op w2, exchange w q op w2 -> wanted_all cap t w2
  end.

Inductive history : world -> list request -> world -> Prop :=
| h_nil : forall w, history w [] w
| h_cons : forall w q qs op w2 w', exchange w q op w2 ->
    has_retained (s_ob (w_sess w2)) (op_pid op) = false -> has_pending_release (s_ob (w_sess w2)) (op_pid op) = false ->
    history w2 qs w' -> history w (q :: qs) w'.

(* one exchange of any kind: from idle (window open) to idle (window as before) *)
Theorem exchange_idle : forall w q,
  IdleQ w -> request_ok (ob_cap (s_ob (w_sess w))) w q ->
  exists op w2, exchange w q op w2 /\
    has_retained (s_ob (w_sess w2)) (op_pid op) = false /\ has_pending_release (s_ob (w_sess w2)) (op_pid op) = false /\
    w_now w2 = w_now w /\ ob_cap (s_ob (w_sess w2)) = ob_cap (s_ob (w_sess w)) /\ IdleQ w2 /\
    rt_maxqos (s_rt (w_sess w2)) = rt_maxqos (s_rt (w_sess w)).
Proof.
  intros w q [Hi [Hq1 [Hq2 [Hq3 Hcap]]]] Hok.
  pose proof Hi as [Hcw [Ec [El [Er _]]]]. pose proof Hcw as [_ [_ [I0 [Hmps _]]]].
  assert (Hrel_none : forall w2, Idle w2 -> forall pid, has_pending_release (s_ob (w_sess w2)) pid = false).
  { intros w2 [_ [_ [El2 _]]] pid. unfold has_pending_release. rewrite El2. reflexivity. }
  destruct q as [r|topics ps|topics ps]; cbn [request_ok] in Hok.
  - destruct Hok as [Hv [[ps Hps] [Hne Henc]]].
    assert (Hq0 : rt_quota (s_rt (w_sess w)) <> 0) by lia.
    destruct (publish_accepted_idle (w_sess w) r _ Er Hmps Hq0 Hcap Hv eq_refl Hne Henc) as [s2 [op Hm]].
    destruct (publish_middle_retained_rt _ _ _ _ Hm) as [_ [_ Hid]]. specialize (Hid (proj1 I0)).
    destruct (effective_qos (w_sess w) (pr_qos r)) eqn:He; [contradiction| |].
    + destruct (qos1_exchange_idle w r s2 op ps Hi Hm He Hps Hid)
        as [w1 [w2 [bs [cap [off [E1 [_ [_ [E2 [_ [Hn2 [Hr2 [Hqu [Hmq [_ [Hc2 [Hmqs Hi2]]]]]]]]]]]]]]]]].
      exists op, w2. split; [eapply ex_q1; eassumption|]. split; [exact Hr2|]. split; [apply Hrel_none; exact Hi2|].
      split; [exact Hn2|]. split; [exact Hc2|]. split; [|exact Hmqs]. split; [exact Hi2|]. rewrite Hqu, Hmq, Hc2. repeat split; try assumption; lia.
    + destruct (qos2_exchange_idle w r s2 op ps Hi Hm He Hps Hid)
        as [w1 [w2 [w3 [bs [cap [off [E1 [_ [_ [E2 [_ [E3 [_ [Hn3 [Hr3 [Hp3 [Hqu [Hmq [_ [Hc3 [Hmqs Hi3]]]]]]]]]]]]]]]]]]]]].
      exists op, w3. split; [eapply ex_q2; eassumption|]. split; [exact Hr3|]. split; [exact Hp3|].
      split; [exact Hn3|]. split; [exact Hc3|]. split; [|exact Hmqs]. split; [exact Hi3|]. rewrite Hqu, Hmq, Hc3. repeat split; try assumption; lia.
  - destruct Hok as [Hne [Hv Henc]].
    destruct (enqueue_accepted_idle (w_sess w) 2 (fun cap id => enc_subscribe cap {| sq_pid := id; sq_props := ps; sq_topics := topics |}) Er Hmps Henc)
      as [s2 [op Hm]].
    pose proof (enqueue_middle_pid_ok _ _ _ _ _ (proj1 I0) Hm) as Hid.
    destruct (subscribe_exchange_idle w topics ps s2 op Hi Hne Hv Hm Hid)
      as [w1 [w2 [bs [cap [off [E1 [_ [_ [E2 [_ [Hn2 [Hr2 [Hrt [Hc2 Hi2]]]]]]]]]]]]]].
    exists op, w2. split; [eapply ex_sub; eassumption|]. split; [exact Hr2|]. split; [apply Hrel_none; exact Hi2|].
    split; [exact Hn2|]. split; [exact Hc2|]. split; [|rewrite Hrt; reflexivity]. split; [exact Hi2|]. rewrite Hrt, Hc2. repeat split; assumption.
  - destruct Hok as [Hne [Hv Henc]].
    destruct (enqueue_accepted_idle (w_sess w) 3 (fun cap id => enc_unsubscribe cap {| uq_pid := id; uq_props := ps; uq_topics := topics |}) Er Hmps Henc)
      as [s2 [op Hm]].
    pose proof (enqueue_middle_pid_ok _ _ _ _ _ (proj1 I0) Hm) as Hid.
    destruct (unsubscribe_exchange_idle w topics ps s2 op Hi Hne Hv Hm Hid)
      as [w1 [w2 [bs [cap [off [E1 [_ [_ [E2 [_ [Hn2 [Hr2 [Hrt [Hc2 Hi2]]]]]]]]]]]]]].
    exists op, w2. split; [eapply ex_unsub; eassumption|]. split; [exact Hr2|]. split; [apply Hrel_none; exact Hi2|].
    split; [exact Hn2|]. split; [exact Hc2|]. split; [|rewrite Hrt; reflexivity]. split; [exact Hi2|]. rewrite Hrt, Hc2. repeat split; assumption.
Qed.

(* every history of acknowledged operations, of any length and in any order, completes every one of them *)
Theorem history_completes : forall qs w,
  IdleQ w -> wanted_all (ob_cap (s_ob (w_sess w))) qs w ->
  exists w', history w qs w' /\ IdleQ w' /\ w_now w' = w_now w.
Proof.
  induction qs as [|q qs IH]; intros w HI HW.
  - exists w. split; [constructor|]. split; [exact HI|reflexivity].
  - cbn [wanted_all] in HW. destruct HW as [Hok Hnext].
    destruct (exchange_idle w q HI Hok) as [op [w2 [Hex [Hr [Hp [Hn [Hc [HI2 _]]]]]]]].
    specialize (Hnext op w2 Hex). rewrite <- Hc in Hnext.
    destruct (IH w2 HI2 Hnext) as [w' [Hh [HI' Hn']]].
    exists w'. split; [econstructor; eassumption|]. split; [exact HI'|]. rewrite Hn'. exact Hn.
Qed.

(* ---------------------------------------------------------------- the same with the requests judged once, against the initial session *)
(* an exchange changes neither the configuration nor the broker's Maximum QoS, so a request is the same QoS for every session
   of the history *)
Lemma exchange_cfg : forall w q op w2, exchange w q op w2 -> s_cfg (w_sess w2) = s_cfg (w_sess w).
Proof.
  intros w q op w2 H. destruct H as [w r op w1 w2 _ E1 E2|w r op w1 w2 w3 _ E1 E2 E3|w t ps op w1 w2 E1 E2|w t ps op w1 w2 E1 E2].
  - pose proof (op_poll_cfg FUEL w1) as A. rewrite E2 in A. pose proof (op_publish_cfg FUEL r w) as B. rewrite E1 in B. cbn [fst] in A, B. congruence.
  - pose proof (op_poll_cfg FUEL w2) as A0. rewrite E3 in A0. pose proof (op_poll_cfg FUEL w1) as A. rewrite E2 in A.
    pose proof (op_publish_cfg FUEL r w) as B. rewrite E1 in B. cbn [fst] in A0, A, B. congruence.
  - pose proof (op_poll_cfg FUEL w1) as A. rewrite E2 in A. pose proof (op_subscribe_cfg FUEL t ps w) as B. rewrite E1 in B. cbn [fst] in A, B. congruence.
  - pose proof (op_poll_cfg FUEL w1) as A. rewrite E2 in A. pose proof (op_unsubscribe_cfg FUEL t ps w) as B. rewrite E1 in B. cbn [fst] in A, B. congruence.
Qed.

Lemma request_ok_same_view : forall cap w w' q,
  s_cfg (w_sess w') = s_cfg (w_sess w) -> rt_maxqos (s_rt (w_sess w')) = rt_maxqos (s_rt (w_sess w)) ->
  request_ok cap w q -> request_ok cap w' q.
Proof.
  intros cap w w' q Hc Hm H. destruct q as [r|t ps|t ps]; cbn [request_ok] in *; [|exact H|exact H].
  assert (E : forall x, effective_qos (w_sess w') x = effective_qos (w_sess w) x) by (intros x; unfold effective_qos; rewrite Hc, Hm; reflexivity).
  rewrite !E. exact H.
Qed.

Theorem history_completes_static : forall qs w,
  IdleQ w -> Forall (request_ok (ob_cap (s_ob (w_sess w))) w) qs ->
  exists w', history w qs w' /\ IdleQ w' /\ w_now w' = w_now w.
Proof.
  intros qs w HI HF.
  assert (G : forall qs w0, IdleQ w0 ->
               s_cfg (w_sess w0) = s_cfg (w_sess w) -> rt_maxqos (s_rt (w_sess w0)) = rt_maxqos (s_rt (w_sess w)) ->
               ob_cap (s_ob (w_sess w0)) = ob_cap (s_ob (w_sess w)) ->
               Forall (request_ok (ob_cap (s_ob (w_sess w))) w) qs ->
               exists w', history w0 qs w' /\ IdleQ w' /\ w_now w' = w_now w0).
  { clear qs HF. induction qs as [|q qs IH]; intros w0 HI0 Hc Hm Hcap HF.
    - exists w0. split; [constructor|]. split; [exact HI0|reflexivity].
    - inversion HF as [|? ? Hq HF']; subst.
      assert (Hok : request_ok (ob_cap (s_ob (w_sess w0))) w0 q) by (rewrite Hcap; eapply request_ok_same_view; eassumption).
      destruct (exchange_idle w0 q HI0 Hok) as [op [w2 [Hex [Hr [Hp [Hn [Hc2 [HI2 Hm2]]]]]]]].
      destruct (IH w2 HI2) as [w' [Hh [HI' Hn']]].
      + rewrite (exchange_cfg _ _ _ _ Hex). exact Hc.
      + rewrite Hm2. exact Hm.
      + rewrite Hc2. exact Hcap.
      + exact HF'.
      + exists w'. split; [econstructor; eassumption|]. split; [exact HI'|]. rewrite Hn'. exact Hn. }
  exact (G qs w HI eq_refl eq_refl eq_refl HF).
Qed.

Lemma exchange_sub_inv : forall w topics ps op w2, exchange w (ReqSubscribe topics ps) op w2 ->
  exists w1, op_subscribe FUEL topics ps w = (w1, ODone (Some op)) /\ op_poll FUEL w1 = (w2, ODone None).
Proof. intros w topics ps op w2 H. inversion H; subst. eexists. split; eassumption. Qed.

(* ---------------------------------------------------------------- the hypotheses are met: a SUBSCRIBE, then a QoS 2 publish *)
Definition ex_req_sub : request := ReqSubscribe [(ex_filter, ex_so1)] [].
Definition ex_req_q2 : request := ReqPublish ex_pubq2.
Definition ex_s1 : world := fst (op_poll FUEL (fst (op_subscribe FUEL [(ex_filter, ex_so1)] [] ex_b1))).

Example mixed_history_hyps_met :
  IdleQ ex_b1 /\ wanted_all (ob_cap (s_ob (w_sess ex_b1))) [ex_req_sub; ex_req_q2] ex_b1.
Proof.
  destruct history_hyps_met as [HI _]. split; [exact HI|].
  assert (Cp : ob_cap (s_ob (w_sess ex_b1)) = 128) by (vm_compute; reflexivity).
  assert (V1 : props_valid_for (PSlice []) CtxSubscribe = true) by (vm_compute; reflexivity).
  assert (V2 : props_valid_for (pr_props ex_pubq2) CtxPublish = true) by (vm_compute; reflexivity).
  assert (E2 : effective_qos (w_sess ex_s1) (pr_qos ex_pubq2) = Q2) by (vm_compute; reflexivity).
  assert (F1 : forall id, exists off bs, enc_subscribe (ob_cap (s_ob (w_sess ex_b1))) {| sq_pid := id; sq_props := []; sq_topics := [(ex_filter, ex_so1)] |} = SOk off bs).
  { intros id. eexists. eexists. vm_compute. reflexivity. }
  assert (F2 : forall id, exists off bs, enc_publish (ob_cap (s_ob (w_sess ex_b1))) (pub_request ex_pubq2 (effective_qos (w_sess ex_s1) (pr_qos ex_pubq2)) id) = SOk off bs).
  { intros id. eexists. eexists. vm_compute. reflexivity. }
  cbn [wanted_all]. split.
  - cbn [ex_req_sub request_ok]. split; [discriminate|]. split; [exact V1|exact F1].
  - intros op w2 H. destruct (exchange_sub_inv _ _ _ _ _ H) as [w1 [H1 H2]].
    assert (W1 : w1 = fst (op_subscribe FUEL [(ex_filter, ex_so1)] [] ex_b1)) by exact (eq_sym (f_equal fst H1)).
    assert (W2 : w2 = fst (op_poll FUEL w1)) by exact (eq_sym (f_equal fst H2)).
    assert (W3 : w2 = ex_s1) by (unfold ex_s1; exact (eq_trans W2 (f_equal (fun x => fst (op_poll FUEL x)) W1))).
    clear H H1 H2 W1 W2. subst w2.
    split.
    + cbn [ex_req_q2 request_ok]. split; [exact V2|]. split; [exists []; reflexivity|].
      split; [intros X; pose proof (eq_trans (eq_sym E2) X) as Y; discriminate Y|exact F2].
    + intros; exact I.
Qed.

(* the static form needs no intermediate worlds: all four kinds of request, judged against the fresh connection *)
Example static_history_hyps_met :
  IdleQ ex_b1 /\
  Forall (request_ok (ob_cap (s_ob (w_sess ex_b1))) ex_b1) [ex_req_sub; ex_req_q2; ReqPublish ex_pub; ReqUnsubscribe [ex_filter] []; ex_req_q2].
Proof.
  destruct history_hyps_met as [HI _]. split; [exact HI|].
  assert (V1 : props_valid_for (PSlice []) CtxSubscribe = true) by (vm_compute; reflexivity).
  assert (V2 : props_valid_for (pr_props ex_pubq2) CtxPublish = true) by (vm_compute; reflexivity).
  assert (V3 : props_valid_for (pr_props ex_pub) CtxPublish = true) by (vm_compute; reflexivity).
  assert (V4 : props_valid_for (PSlice []) CtxUnsubscribe = true) by (vm_compute; reflexivity).
  assert (E2 : effective_qos (w_sess ex_b1) (pr_qos ex_pubq2) = Q2) by (vm_compute; reflexivity).
  assert (E3 : effective_qos (w_sess ex_b1) (pr_qos ex_pub) = Q1) by (vm_compute; reflexivity).
  assert (F1 : forall id, exists off bs, enc_subscribe (ob_cap (s_ob (w_sess ex_b1))) {| sq_pid := id; sq_props := []; sq_topics := [(ex_filter, ex_so1)] |} = SOk off bs)
    by (intros id; eexists; eexists; vm_compute; reflexivity).
  assert (F2 : forall id, exists off bs, enc_publish (ob_cap (s_ob (w_sess ex_b1))) (pub_request ex_pubq2 (effective_qos (w_sess ex_b1) (pr_qos ex_pubq2)) id) = SOk off bs)
    by (intros id; eexists; eexists; vm_compute; reflexivity).
  assert (F3 : forall id, exists off bs, enc_publish (ob_cap (s_ob (w_sess ex_b1))) (pub_request ex_pub (effective_qos (w_sess ex_b1) (pr_qos ex_pub)) id) = SOk off bs)
    by (intros id; eexists; eexists; vm_compute; reflexivity).
  assert (F4 : forall id, exists off bs, enc_unsubscribe (ob_cap (s_ob (w_sess ex_b1))) {| uq_pid := id; uq_props := []; uq_topics := [ex_filter] |} = SOk off bs)
    by (intros id; eexists; eexists; vm_compute; reflexivity).
  assert (R2 : request_ok (ob_cap (s_ob (w_sess ex_b1))) ex_b1 ex_req_q2).
  { cbn [ex_req_q2 request_ok]. split; [exact V2|]. split; [exists []; reflexivity|].
    split; [intros X; pose proof (eq_trans (eq_sym E2) X) as Y; discriminate Y|exact F2]. }
  assert (R1 : request_ok (ob_cap (s_ob (w_sess ex_b1))) ex_b1 ex_req_sub)
    by (cbn [ex_req_sub request_ok]; split; [discriminate|]; split; [exact V1|exact F1]).
  assert (R3 : request_ok (ob_cap (s_ob (w_sess ex_b1))) ex_b1 (ReqPublish ex_pub)).
  { cbn [request_ok]. split; [exact V3|]. split; [exists []; reflexivity|].
    split; [intros X; pose proof (eq_trans (eq_sym E3) X) as Y; discriminate Y|exact F3]. }
  assert (R4 : request_ok (ob_cap (s_ob (w_sess ex_b1))) ex_b1 (ReqUnsubscribe [ex_filter] []))
    by (cbn [request_ok]; split; [discriminate|]; split; [exact V4|exact F4]).
  exact (Forall_cons _ R1 (Forall_cons _ R2 (Forall_cons _ R3 (Forall_cons _ R4 (Forall_cons _ R2 (Forall_nil _)))))).
Qed.

(* ---------------------------------------------------------------- an inbound QoS 0 message in between: delivered, still idle *)
Theorem inbound_qos0_idle : forall w h rl body t topic r dp props payload,
  Hc w ->
  ob_ctl (s_ob (w_sess w)) = [] -> ob_rel (s_ob (w_sess w)) = [] -> ob_ret (s_ob (w_sess w)) = [] ->
  rt_ka_ms (s_rt (w_sess w)) = 0 -> rt_next_ping (s_rt (w_sess w)) = None -> rt_ping_timeout (s_rt (w_sess w)) = None ->
  w_broker w = 1 -> w_txbuf w = [] -> w_last_arrival w <= w_now w ->
  rdata (rd w) = [] -> rplen (rd w) = None -> 6 <= rcap (rd w) ->
  varint_write (lenN body) = Some rl ->
  let pkt := h :: rl ++ body in
  w_inq w = [(t, pkt)] -> t <= w_now w -> lenN pkt <= rcap (rd w) -> lenN pkt <= 29000 ->
  from_buffer pkt = Some (RPublish topic None Q0 r dp props payload) ->
  exists w', op_poll FUEL w = (w', ODone (Some (RPublish topic None Q0 r dp props payload))) /\
    w_wire w' = w_wire w /\ w_now w' = w_now w /\ s_rt (w_sess w') = s_rt (w_sess w) /\ s_ob (w_sess w') = s_ob (w_sess w) /\
    Idle w'.
Proof.
  intros w h rl body t topic r dp props payload Hcw Ec El Er Hka Hnp Hpt Hbr Htx Hla Hrd Hrp Hcap Hrl pkt Hi Ht Hfit H29 Hdec.
  pose proof Hcw as [Hs [Hl [I [Hmps [_ [HB HF]]]]]].
  destruct FUEL_big as [f Hf]. assert (Hfu : N.of_nat FUEL = 30000) by reflexivity.
  unfold op_poll. rewrite Hf.
  assert (Hto : ping_timed_out (w_sess w) (w_now w) = false) by (unfold ping_timed_out; rewrite Hpt; reflexivity).
  assert (Hq : PQ w) by (split; [unfold should_queue_pingreq; rewrite Hpt, Hnp; reflexivity|apply calm_nil; exact Hs]).
  assert (Hn : next_step (s_ob (w_sess w)) = None) by (apply quiescent_no_step; assumption).
  destruct (wait_reads_arrived_packet_gen (S (S (S (S f)))) w h rl body t Hrl) as [w3 [E3 [D3 [P3 [K3 [S3 [Q3 [C3 [N3 [L3 [W3 B3]]]]]]]]]]];
    try assumption; fold pkt; try (unfold BIG; lia); try (rewrite Hf in Hfu; lia).
  fold pkt in D3, P3. rewrite E3. clear E3.
  rewrite wait_unfold. unfold drive_packet. rewrite L3. cbn [negb]. rewrite drive_loop_unfold.
  assert (Ha3 : packet_available (rd w3) = true).
  { unfold packet_available. rewrite P3. unfold read_bytes. rewrite D3. apply N.leb_le. lia. }
  unfold process_received at 1. fold (rd w3). rewrite Ha3. cbn [negb]. unfold take_packet. rewrite P3, D3.
  rewrite (takeN_all pkt (lenN pkt)) by lia. rewrite Hdec.
  assert (Es3 : set_reader (w_sess w3) (reader_reset (rd w3)) = set_reader (w_sess w) (reader_reset (rd w))).
  { rewrite S3. unfold reader_reset. rewrite K3. destruct (w_sess w); reflexivity. }
  rewrite Es3. cbn [handle_packet].
  set (s3 := set_reader (w_sess w) (reader_reset (rd w))).
  eexists. split; [reflexivity|].
  cbn [w_wire w_now w_sess upd_drained upd_envok upd_sess].
  split; [exact W3|]. split; [exact N3|]. split; [reflexivity|]. split; [reflexivity|].
  unfold bt in B3. injection B3 as Bb Bt Bl.
  assert (I3 : WInv s3) by (eapply WInv_step; [apply SS_reader|exact I]).
  unfold Idle, Hc, rd. cbn [w_sess w_script w_live w_now w_broker w_txbuf w_inq w_last_arrival upd_drained upd_envok upd_sess].
  split.
  { split; [exact C3|]. split; [exact L3|]. split; [exact I3|]. split; [exact Hmps|].
    split; [intros d E; change (s_rt s3) with (s_rt (w_sess w)) in E; rewrite Hpt in E; discriminate E|]. split; [exact HB|exact HF]. }
  split; [exact Ec|]. split; [exact El|]. split; [exact Er|]. split; [exact Hka|]. split; [exact Hnp|]. split; [exact Hpt|].
  split; [rewrite Bb; exact Hbr|]. split; [rewrite Bt; exact Htx|]. split; [exact Q3|].
  split; [rewrite Bl, N3; exact Hla|].
  cbn [s3 set_reader s_reader reader_reset rdata rplen rcap]. split; [reflexivity|]. split; [reflexivity|exact Hcap].
Qed.
