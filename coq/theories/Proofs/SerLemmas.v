(* SerLemmas.v — the bounded serializer: what an `SOk off bytes` result guarantees. *)
From Coq Require Import Arith Lia ZifyBool ZifyN ZifyNat.
From Minimq Require Import Util Bytes Varint Utf8 Props Ser.

Lemma ser_push_spec : forall cs cap idx acc idx' body,
  ser_push cap idx cs acc = SOk idx' body ->
  idx <= idx' /\ (idx' <= cap \/ idx' = idx) /\ lenN body = lenN acc + (idx' - idx).
Proof.
  induction cs as [|c t IH]; intros cap idx acc idx' body H; cbn [ser_push] in H.
  - inversion H; subst. lia.
  - destruct c as [d|]; [|discriminate].
    unfold sat_sub in H. destruct (cap - idx <? lenN d) eqn:E; [discriminate|].
    apply IH in H. rewrite lenN_app in H. lia.
Qed.

Lemma varint_write_len : forall v bs, varint_write v = Some bs -> 1 <= lenN bs <= 4.
Proof.
  intros v bs H. unfold varint_write in H. destruct (VARINT_MAX <? v); [discriminate|]. inversion H; subst.
  cbn [varint_write_fuel].
  repeat match goal with |- context [if ?c then _ else _] => destruct c end;
    rewrite ?lenN_cons, ?lenN_nil; cbn [lenN lenN_acc]; lia.
Qed.

Lemma finalize_spec : forall cap idx body typ flags off bs,
  finalize cap idx body typ flags = SOk off bs -> 5 <= idx ->
  lenN body = idx - 5 -> idx <= cap ->
  off <= 3 /\ off + lenN bs = idx /\ 2 <= lenN bs /\
  exists rl, bs = (typ * 16 + flags mod 16) :: rl ++ body.
Proof.
  intros cap idx body typ flags off bs H H5 Hb Hc. unfold finalize in H.
  destruct (varint_write (idx - 5)) as [rl|] eqn:Ev; [|discriminate].
  destruct (cap <? 5); [discriminate|]. injection H as <- <-.
  apply varint_write_len in Ev. rewrite lenN_cons, lenN_app.
  refine (conj _ (conj _ (conj _ _))); try lia. now exists rl.
Qed.

Lemma encode_chunks_spec : forall cap typ flags cs off bs,
  encode_chunks cap typ flags cs = SOk off bs ->
  off <= 3 /\ off + lenN bs <= cap /\ 2 <= lenN bs /\ exists t, bs = (typ * 16 + flags mod 16) :: t.
Proof.
  intros cap typ flags cs off bs H. unfold encode_chunks in H.
  destruct (ser_push cap 5 cs []) as [idx body|e] eqn:E; [|discriminate].
  pose proof (ser_push_spec _ _ _ _ _ _ E) as [S1 [S2 S3]]. rewrite lenN_nil in S3.
  assert (Hcap : 5 <= cap).
  { unfold finalize in H. destruct (varint_write _); [|discriminate]. destruct (cap <? 5) eqn:E5; [discriminate|]. lia. }
  destruct (finalize_spec _ _ _ _ _ _ _ H) as [F1 [F2 [F3 [rl F4]]]]; try lia.
  refine (conj _ (conj _ (conj _ _))); try lia. exists (rl ++ body). exact F4.
Qed.

Lemma encode_chunks_payload_spec : forall cap typ flags cs payload off bs,
  encode_chunks_payload cap typ flags cs payload = SOk off bs ->
  off <= 3 /\ off + lenN bs <= cap /\ 2 <= lenN bs /\ exists t, bs = (typ * 16 + flags mod 16) :: t.
Proof.
  intros cap typ flags cs payload off bs H. unfold encode_chunks_payload in H.
  destruct (ser_push cap 5 cs []) as [idx body|e] eqn:E; [|discriminate].
  pose proof (ser_push_spec _ _ _ _ _ _ E) as [S1 [S2 S3]]. rewrite lenN_nil in S3.
  destruct (cap - N.min idx cap <? lenN payload) eqn:E1; [discriminate|].
  unfold sat_sub in H. destruct (cap - idx <? lenN payload) eqn:E2; [discriminate|].
  assert (Hcap : 5 <= cap).
  { unfold finalize in H. destruct (varint_write _); [|discriminate]. destruct (cap <? 5) eqn:E5; [discriminate|]. lia. }
  destruct (finalize_spec _ _ _ _ _ _ _ H) as [F1 [F2 [F3 [rl F4]]]]; try (rewrite ?lenN_app; lia).
  refine (conj _ (conj _ (conj _ _))); try lia. exists (rl ++ body ++ payload). exact F4.
Qed.
