(* WireInv.v — session-level invariants behind the wire theorem of C01, each closed under every `sstep`:
   FrameInv  every retained packet in the arena is one whole MQTT packet (first byte, canonical length, body);
   CtlShape  in the control queue only the head can be in progress, nothing is "sent" (sent entries leave at once);
   Single    at most one entry of the three queues is in progress (partly written or awaiting its flush). *)
From Coq Require Import List NArith Lia Bool.
From Coq Require Import ZifyBool ZifyN ZifyNat.
From Minimq Require Import Bytes Varint Utf8 Props Ser De Reader Spec Arena Core Util Lts ArenaLemmas ArenaOps Inv
  Quota Status Persist Frames Limits Reach.
From Minimq Require Import PacketShape.
Import ListNotations.
Local Open Scope N_scope.

Definition is_frame (f : bytes) : Prop := exists first, frame first f.

(* ---------------------------------------------------------------- FrameInv *)
Definition FrameInv (o : outbound) : Prop := Forall (fun k => is_frame (snd k)) (map a_key (abs o)).

Lemma FrameInv_keys : forall o o', map a_key (abs o') = map a_key (abs o) -> FrameInv o -> FrameInv o'.
Proof. intros o o' H F. unfold FrameInv. now rewrite H. Qed.

Lemma frame_dup : forall bs, is_frame bs -> is_frame (dup_bytes bs).
Proof. intros bs [first [rl [body [-> Hv]]]]. exists (set_bit3 first). exists rl, body. split; [reflexivity|exact Hv]. Qed.

Lemma FrameInv_compact : forall o, arena_wf o -> FrameInv o -> FrameInv (compact o).
Proof. intros o W F. destruct (compact_spec o W) as [_ [C2 _]]. unfold FrameInv. now rewrite C2. Qed.

Lemma FrameInv_dup : forall o, arena_wf o -> FrameInv o -> FrameInv (mark_retained_dup o).
Proof.
  intros o W F. destruct (mark_retained_dup_spec o W) as [_ [M2 _]]. unfold FrameInv in *. rewrite M2, map_map.
  rewrite Forall_map in *. eapply Forall_impl; [|exact F]. intros [[p b] st] H. cbn [a_key dup_aentry a_bytes fst snd] in *.
  now apply frame_dup.
Qed.

Lemma FrameInv_arm_replay : forall o, arena_wf o -> FrameInv o -> FrameInv (arm_replay o).
Proof.
  intros o W F. unfold arm_replay. destruct (negb (has_pending_state o)); [exact F|].
  pose proof (FrameInv_dup o W F) as H1. set (o1 := mark_retained_dup o) in *.
  eapply (FrameInv_keys o1); [|exact H1]. apply keys_states; cbn [ob_buf ob_ret]; try reflexivity; rewrite map_map; reflexivity.
Qed.

Lemma abs_remove_sub : forall pid l l' (a : aentry), abs_remove pid l = Some l' -> In a l' -> In a l.
Proof.
  induction l as [|[[p b] st] t IH]; intros l' a H Hin; cbn [abs_remove] in H; [discriminate|].
  destruct (N.eqb_spec p pid).
  - inversion H; subst. now right.
  - destruct (abs_remove pid t) as [t'|] eqn:E; [|discriminate]. inversion H; subst.
    destruct Hin as [<-|Hin]; [now left|right; eapply IH; eauto].
Qed.

Lemma FrameInv_ack : forall o pid, arena_wf o -> FrameInv o -> FrameInv (fst (ack_packet o pid)).
Proof.
  intros o pid W F. destruct (ack_packet o pid) as [o' f] eqn:E. cbn [fst].
  destruct (ack_packet_spec o pid o' f W E) as [_ [_ [_ [_ Hf]]]]. destruct f; [|destruct Hf as [-> _]; exact F].
  unfold FrameInv in *. rewrite Forall_map in *. rewrite Forall_forall in *. intros a Ha. apply F. eapply abs_remove_sub; eassumption.
Qed.

Lemma FrameInv_encode_at : forall o enc, OInv o ->
  (forall cap off' bs, enc cap = SOk off' bs -> off' + lenN bs <= cap /\ 2 <= lenN bs) ->
  FrameInv o -> FrameInv (fst (encode_at o enc)).
Proof.
  intros o enc H Henc F. pose proof (FrameInv_compact o (oi_arena _ H) F) as Hc.
  unfold encode_at. destruct (enc _) as [off bs|e] eqn:E; cbn [fst]; [|exact Hc].
  eapply (FrameInv_keys (compact o)); [|exact Hc].
  pose proof (OInv_compact o H) as Hoc. destruct (oi_arena _ Hoc) as [W Uu]. destruct (Henc _ _ _ E) as [Hfit _]. unfold ob_cap in Hfit.
  unfold abs. cbn [ob_ret ob_buf]. rewrite !map_map.
  revert W. generalize 0 as lo. generalize (ob_ret (compact o)) as es.
  induction es as [|e t IH]; intros lo W; cbn [map]; [reflexivity|].
  cbn [wf_layout] in W. destruct W as [W1 [W2 W3]]. pose proof (wf_layout_le _ _ _ W3). f_equal; [|eapply IH; exact W3].
  unfold a_key, a_bytes, abs_entry, entry_bytes. cbn [fst snd]. f_equal. apply slice_overwrite_before; lia.
Qed.

Lemma FrameInv_retain : forall o enc o1 off len id o2, OInv o ->
  (forall cap off' bs, enc cap = SOk off' bs -> off' + lenN bs <= cap /\ 2 <= lenN bs) ->
  (forall cap off' bs, enc cap = SOk off' bs -> is_frame bs) ->
  encode_at o enc = (o1, EOk off len) -> retain_packet o1 id off len = Some o2 ->
  FrameInv o -> FrameInv o2.
Proof.
  intros o enc o1 off len id o2 H Henc Hfr He Hr F.
  destruct (encode_retain_spec o enc o1 off len id o2 (oi_arena _ H) Henc He Hr) as [nb [_ [Ab [_ [[cap [off' Hx]] _]]]]].
  unfold FrameInv in *. rewrite Ab, map_app, Forall_app. split; [exact F|]. constructor; [|constructor].
  cbn [a_key a_bytes fst snd]. eapply Hfr. exact Hx.
Qed.

Lemma FrameInv_queue_ctl : forall s a d, FrameInv (s_ob s) -> FrameInv (s_ob (fst (queue_ctl_checked s a d))).
Proof.
  intros s a d H. unfold queue_ctl_checked. destruct (check_control_size _ _); [exact H|].
  destruct (queue_control (s_ob s) a) as [o|] eqn:E; cbn [fst]; [|exact H].
  unfold queue_control in E. destruct (_ <=? _); [discriminate|]. inversion E; subst. exact H.
Qed.

Lemma FrameInv_handle_packet : forall s p, Inv s -> FrameInv (s_ob s) -> FrameInv (s_ob (fst (handle_packet s p))).
Proof.
  intros s p I H. pose proof (oi_arena _ (inv_ob _ I)) as W.
  destruct p; cbn [handle_packet] in *; try exact H.
  - destruct q; [exact H| |]; destruct pid; try exact H; try (apply FrameInv_queue_ctl; exact H).
    q2_split; apply FrameInv_queue_ctl; exact H.
  - pose proof (FrameInv_ack (s_ob s) pid W H) as Ha.
    destruct (ack_packet _ _) as [o f]. cbn [fst] in Ha. destruct f; cbn [negb]; [|exact H]. destruct (rc_success _); exact Ha.
  - pose proof (FrameInv_ack (s_ob s) pid W H) as Ha.
    destruct (ack_packet _ _) as [o f]. cbn [fst] in Ha. destruct f.
    + destruct (negb _); cbn [fst set_rt set_ob s_ob]; [exact Ha|]. destruct (check_pubrel_size _ _ _); cbn [fst set_ob s_ob]; [exact Ha|].
      destruct (queue_release o pid 0) as [o2|] eqn:E; cbn [fst set_ob s_ob]; [|exact Ha].
      unfold queue_release in E. destruct (_ <=? _); [discriminate|]. inversion E; subst. exact Ha.
    + destruct (has_pending_release _ _); [destruct (rc_success _)|]; exact H.
  - destruct (swap_remove_id _ _); apply FrameInv_queue_ctl; exact H.
  - unfold ack_release. destruct (remove_first_rel _ _); cbn [negb fst]; [|exact H]. destruct (rc_success _); exact H.
  - pose proof (FrameInv_ack (s_ob s) pid W H) as Ha.
    destruct (ack_packet _ _) as [o f]. cbn [fst] in Ha. destruct f; cbn [negb]; [|exact H]. destruct (all_success _); exact Ha.
  - pose proof (FrameInv_ack (s_ob s) pid W H) as Ha.
    destruct (ack_packet _ _) as [o f]. cbn [fst] in Ha. destruct f; cbn [negb]; [|exact H]. destruct (all_success _); exact Ha.
Qed.

Lemma FrameInv_enqueue : forall s k enc,
  (forall id cap off bs, enc cap id = SOk off bs -> off + lenN bs <= cap /\ 2 <= lenN bs) ->
  (forall id cap off bs, enc cap id = SOk off bs -> is_frame bs) ->
  Inv s -> FrameInv (s_ob s) -> FrameInv (s_ob (fst (enqueue_middle s k enc))).
Proof.
  intros s k enc Henc Hfr I H. unfold enqueue_middle. destruct (retained_full _); [exact H|].
  unfold next_packet_id. destruct (next_packet_id_go _ _ _) as [nxt id]. cbn [set_pid s_ob].
  pose proof (FrameInv_encode_at (s_ob s) (fun cap => enc cap id) (inv_ob _ I) (fun c o b Hx => Henc id c o b Hx) H) as He.
  destruct (encode_at (s_ob s) (fun cap => enc cap id)) as [o1 er] eqn:Ee. cbn [fst] in He.
  destruct er; cbn [fst set_ob s_ob]; [|exact He]. destruct (too_large _ _); cbn [fst set_ob s_ob]; [exact He|].
  destruct (retain_packet o1 id off len) as [o2|] eqn:Er; cbn [fst set_ob s_ob]; [|exact He].
  eapply (FrameInv_retain (s_ob s)); [apply I| | |exact Ee|exact Er|exact H].
  - intros c o b Hx. eapply Henc. exact Hx.
  - intros c o b Hx. eapply Hfr. exact Hx.
Qed.

Lemma FrameInv_publish : forall s live r, Inv s -> FrameInv (s_ob s) -> FrameInv (s_ob (fst (publish_middle s live r))).
Proof.
  intros s live r I H. unfold publish_middle. destruct (negb (props_valid_for _ _)); [exact H|].
  pose proof (FrameInv_compact _ (oi_arena _ (inv_ob _ I)) H) as Hc.
  assert (Hfr : forall rq c o b, enc_publish c rq = SOk o b -> is_frame b).
  { intros rq c o b Hx. eexists. exact (proj1 (enc_publish_frame _ _ _ _ Hx)). }
  destruct (effective_qos _ _).
  - destruct (negb _); [exact H|]. destruct (enc_publish _ _); cbn [fst set_ob s_ob]; [|exact Hc].
    destruct (too_large _ _); [exact Hc|]. destruct (negb live); exact Hc.
  - unfold next_packet_id. destruct (next_packet_id_go _ _ _) as [nxt id]. cbn [set_pid s_ob s_rt].
    destruct (retained_full _); [exact H|]. destruct (negb _); [exact H|].
    match goal with |- context [encode_at (s_ob s) ?f] => set (enc := f) end.
    pose proof (FrameInv_encode_at (s_ob s) enc (inv_ob _ I) (fun c o b Hx => enc_publish_fits _ c o b Hx) H) as He.
    destruct (encode_at (s_ob s) enc) as [o1 er] eqn:Ee. cbn [fst] in He.
    destruct er; cbn [fst set_ob s_ob]; [|exact He]. destruct (too_large _ _); cbn [fst set_ob s_ob]; [exact He|].
    destruct (retain_packet o1 id off len) as [o2|] eqn:Er; cbn [fst set_ob set_rt s_ob]; [|exact He].
    eapply (FrameInv_retain (s_ob s)); [apply I| | |exact Ee|exact Er|exact H].
    + intros c o b Hx. eapply enc_publish_fits. exact Hx.
    + intros c o b Hx. eapply Hfr. exact Hx.
  - unfold next_packet_id. destruct (next_packet_id_go _ _ _) as [nxt id]. cbn [set_pid s_ob s_rt].
    destruct (retained_full _); [exact H|]. destruct (negb _); [exact H|].
    match goal with |- context [encode_at (s_ob s) ?f] => set (enc := f) end.
    pose proof (FrameInv_encode_at (s_ob s) enc (inv_ob _ I) (fun c o b Hx => enc_publish_fits _ c o b Hx) H) as He.
    destruct (encode_at (s_ob s) enc) as [o1 er] eqn:Ee. cbn [fst] in He.
    destruct er; cbn [fst set_ob s_ob]; [|exact He]. destruct (too_large _ _); cbn [fst set_ob s_ob]; [exact He|].
    destruct (retain_packet o1 id off len) as [o2|] eqn:Er; cbn [fst set_ob set_rt s_ob]; [|exact He].
    eapply (FrameInv_retain (s_ob s)); [apply I| | |exact Ee|exact Er|exact H].
    + intros c o b Hx. eapply enc_publish_fits. exact Hx.
    + intros c o b Hx. eapply Hfr. exact Hx.
Qed.

Theorem FrameInv_step : forall s l s', sstep s l s' -> Inv s -> FrameInv (s_ob s) -> FrameInv (s_ob s').
Proof.
  intros s l s' H I He. pose proof (oi_arena _ (inv_ob _ I)) as W. inversion H; subst; clear H.
  - cbn [sess_handle_disconnect set_reader set_rt set_ob s_ob]. now apply FrameInv_arm_replay.
  - unfold maybe_queue_pingreq. destruct (should_queue_pingreq _ _); [|exact He]. destruct (check_control_size _ _); [exact He|].
    destruct (queue_control (s_ob s) CPing) as [o|] eqn:E; cbn [fst]; [|exact He].
    unfold queue_control in E. destruct (_ <=? _); [discriminate|]. inversion E; subst. exact He.
  - unfold set_written. destruct p.
    + unfold set_control_written. destruct (update_first _ _ _). exact He.
    + unfold set_release_written. destruct (update_first _ _ _). exact He.
    + unfold set_retained_written. destruct (update_first _ _ (ob_ret (s_ob s))) as [l0 b] eqn:E. cbn [fst set_ob s_ob].
      eapply (FrameInv_keys (s_ob s)); [|exact He]. apply keys_states; cbn [with_ret ob_buf ob_ret]; try reflexivity;
        (replace l0 with (fst (update_first (fun e => N.eqb (re_pid e) pid)
           (fun e => {| re_pid := re_pid e; re_off := re_off e; re_len := re_len e; re_st := set_written_state (w + n) len |}) (ob_ret (s_ob s)))) by now rewrite E);
        apply update_first_map; reflexivity.
  - unfold complete_flush. destruct p.
    + unfold flush_control. destruct (update_first _ _ _). exact He.
    + unfold flush_release. destruct (update_first _ _ _). exact He.
    + unfold flush_retained. destruct (update_first _ _ (ob_ret (s_ob s))) as [l0 b] eqn:E. cbn [fst set_ob set_rt s_ob].
      eapply (FrameInv_keys (s_ob s)); [|exact He]. apply keys_states; cbn [with_ret ob_buf ob_ret]; try reflexivity;
        (replace l0 with (fst (update_first (fun e => N.eqb (re_pid e) pid)
           (fun e => {| re_pid := re_pid e; re_off := re_off e; re_len := re_len e; re_st := SSent |}) (ob_ret (s_ob s)))) by now rewrite E);
        apply update_first_map; reflexivity.
  - exact He.
  - now apply FrameInv_handle_packet.
  - now apply FrameInv_publish.
  - unfold subscribe_middle. apply FrameInv_enqueue; try assumption.
    + intros. eapply enc_subscribe_fits; eassumption.
    + intros id cap off bs Hx. eexists. exact (proj1 (enc_subscribe_frame _ _ _ _ Hx)).
  - unfold unsubscribe_middle. apply FrameInv_enqueue; try assumption.
    + intros. eapply enc_unsubscribe_fits; eassumption.
    + intros id cap off bs Hx. eexists. exact (proj1 (enc_unsubscribe_frame _ _ _ _ Hx)).
  - exact He.
  - exact He.
  - exact He.
  - cbn [set_ob s_ob]. now apply FrameInv_arm_replay.
  - cbn [set_ob s_ob]. now apply FrameInv_compact.
  - unfold connack_process. destruct p as [p|]; [|exact He]. destruct p; try exact He.
    destruct (negb _); [exact He|]. cbv zeta. destruct (connack_props _ _ _); cbn [fst]; [|exact He].
    destruct sp; cbn [s_ob]; [exact He|]. cbn [data_reset s_ob]. unfold FrameInv, abs. cbn [ob_clear ob_ret map]. constructor.
  - exact He.
Qed.

(* ---------------------------------------------------------------- counting entries in progress *)
Definition ipl (l : list sstate) : nat := length (filter is_in_progress l).
Definition nip (o : outbound) : nat :=
  (ipl (map ce_st (ob_ctl o)) + ipl (map le_st (ob_rel o)) + ipl (map re_st (ob_ret o)))%nat.
Definition Single (o : outbound) : Prop := (nip o <= 1)%nat.

Definition CtlShape (l : list centry) : Prop :=
  match l with
  | [] => True
  | e :: t => ce_st e <> SSent /\ Forall (fun x => is_fresh (ce_st x) = true) t
  end.

Lemma ipl_app : forall a b, ipl (a ++ b) = (ipl a + ipl b)%nat.
Proof. intros. unfold ipl. now rewrite filter_app, app_length. Qed.
Lemma ipl_cons : forall x l, ipl (x :: l) = ((if is_in_progress x then 1 else 0) + ipl l)%nat.
Proof. intros. unfold ipl. cbn [filter]. destruct (is_in_progress x); reflexivity. Qed.
Lemma ipl_fresh_all : forall l, Forall (fun s => is_in_progress s = false) l -> ipl l = 0%nat.
Proof. induction l as [|x t IH]; intros H; [reflexivity|]. inversion H; subst. rewrite ipl_cons, H2, IH; auto. Qed.
Lemma ipl_fresh1 : ipl [SWrite 0] = 0%nat.
Proof. reflexivity. Qed.
Lemma fresh_not_ip : forall s, is_fresh s = true -> is_in_progress s = false.
Proof. intros [w| |] H; cbn in *; try discriminate. now rewrite H. Qed.

(* relation "nothing got worse" between two outbound states *)
Definition calm (o o' : outbound) : Prop :=
  (nip o' <= nip o)%nat /\ (CtlShape (ob_ctl o) -> CtlShape (ob_ctl o')).
Lemma calm_refl : forall o, calm o o.
Proof. intros. split; [lia|auto]. Qed.
Lemma calm_trans : forall a b c, calm a b -> calm b c -> calm a c.
Proof. intros a b c [H1 H2] [H3 H4]. split; [lia|auto]. Qed.
Lemma calm_same_lists : forall o o', map ce_st (ob_ctl o') = map ce_st (ob_ctl o) -> ob_ctl o' = ob_ctl o ->
  map le_st (ob_rel o') = map le_st (ob_rel o) -> map re_st (ob_ret o') = map re_st (ob_ret o) -> calm o o'.
Proof. intros o o' H1 H1' H2 H3. split; [unfold nip; rewrite H1, H2, H3; lia|now rewrite H1']. Qed.

Lemma CtlShape_all_fresh : forall l, Forall (fun x => is_fresh (ce_st x) = true) l -> CtlShape l.
Proof.
  intros [|e t] H; [exact I|]. inversion H; subst. split; [|assumption]. intros E. rewrite E in H2. discriminate.
Qed.
Lemma CtlShape_app_fresh : forall l a, CtlShape l -> CtlShape (l ++ [{| ce_act := a; ce_st := SWrite 0 |}]).
Proof.
  intros [|e t] a H; cbn [app CtlShape].
  - split; [discriminate|constructor].
  - destruct H as [H1 H2]. split; [exact H1|]. apply Forall_app. split; [exact H2|]. constructor; [reflexivity|constructor].
Qed.

Lemma calm_queue_control : forall o a o', queue_control o a = Some o' -> calm o o'.
Proof.
  intros o a o' H. unfold queue_control in H. destruct (_ <=? _); [discriminate|]. inversion H; subst. split.
  - unfold nip. cbn [ob_ctl ob_rel ob_ret]. rewrite map_app, ipl_app. cbn [map ce_st]. rewrite ipl_fresh1. lia.
  - cbn [ob_ctl]. apply CtlShape_app_fresh.
Qed.
Lemma calm_queue_release : forall o pid rc o', queue_release o pid rc = Some o' -> calm o o'.
Proof.
  intros o pid rc o' H. unfold queue_release in H. destruct (_ <=? _); [discriminate|]. inversion H; subst. split.
  - unfold nip. cbn [ob_ctl ob_rel ob_ret]. rewrite map_app, ipl_app. cbn [map le_st]. rewrite ipl_fresh1. lia.
  - cbn [ob_ctl]. auto.
Qed.
Lemma calm_retain : forall o pid off len o', retain_packet o pid off len = Some o' -> calm o o'.
Proof.
  intros o pid off len o' H. unfold retain_packet in H. destruct (_ <=? _); [discriminate|]. inversion H; subst. split.
  - unfold nip. cbn [ob_ctl ob_rel ob_ret]. rewrite map_app, ipl_app. cbn [map re_st]. rewrite ipl_fresh1. lia.
  - cbn [ob_ctl]. auto.
Qed.
Lemma calm_compact : forall o, arena_wf o -> calm o (compact o).
Proof.
  intros o W. destruct (compact_spec o W) as [_ [_ [_ [_ [C5 [C6 [_ [_ [C9 _]]]]]]]]].
  apply calm_same_lists; [now rewrite C5|exact C5|now rewrite C6|exact C9].
Qed.
Lemma calm_dup : forall o, calm o (mark_retained_dup o).
Proof. intros. apply calm_same_lists; reflexivity. Qed.
Lemma ipl_remove_mid : forall a (x : sstate) b, (ipl (a ++ b) <= ipl (a ++ x :: b))%nat.
Proof. intros. rewrite !ipl_app, ipl_cons. lia. Qed.
Lemma calm_ack_packet : forall o pid, arena_wf o -> calm o (fst (ack_packet o pid)).
Proof.
  intros o pid W. unfold ack_packet. destruct (remove_first_ret pid (ob_ret o)) as [es|] eqn:E; cbn [fst]; [|apply calm_refl].
  destruct (remove_first_ret_order _ _ _ E) as [a [x [b [H1 [H2 _]]]]].
  set (o1 := {| ob_buf := ob_buf o; ob_used := ob_used o; ob_ctl := ob_ctl o; ob_ret := es; ob_rel := ob_rel o |}).
  assert (C1 : calm o o1).
  { split; [|auto]. unfold nip, o1. cbn [ob_ctl ob_rel ob_ret]. rewrite H1, H2, !map_app. cbn [map].
    pose proof (ipl_remove_mid (map re_st a) (re_st x) (map re_st b)). lia. }
  eapply calm_trans; [exact C1|]. apply calm_compact.
  destruct W as [W U]. split; [|exact U]. unfold o1. cbn [ob_ret ob_used]. eapply remove_first_ret_wf; eassumption.
Qed.
Lemma calm_ack_release : forall o pid, calm o (fst (ack_release o pid)).
Proof.
  intros o pid. unfold ack_release. destruct (remove_first_rel pid (ob_rel o)) as [es|] eqn:E; cbn [fst]; [|apply calm_refl].
  destruct (remove_first_rel_order _ _ _ E) as [a [x [b [H1 [H2 _]]]]]. split; [|auto].
  unfold nip. cbn [ob_ctl ob_rel ob_ret]. rewrite H1, H2, !map_app. cbn [map].
  pose proof (ipl_remove_mid (map le_st a) (le_st x) (map le_st b)). lia.
Qed.
Lemma calm_encode_at : forall o enc, arena_wf o -> calm o (fst (encode_at o enc)).
Proof.
  intros o enc W. unfold encode_at. destruct (enc _); cbn [fst]; [|now apply calm_compact].
  eapply calm_trans; [apply calm_compact; exact W|]. apply calm_same_lists; reflexivity.
Qed.
Lemma calm_queue_ctl_checked : forall s a d, calm (s_ob s) (s_ob (fst (queue_ctl_checked s a d))).
Proof.
  intros. unfold queue_ctl_checked. destruct (check_control_size _ _); [apply calm_refl|].
  destruct (queue_control (s_ob s) a) as [o|] eqn:E; cbn [fst]; [|apply calm_refl]. cbn [set_ob s_ob]. eapply calm_queue_control; exact E.
Qed.

Lemma calm_handle_packet : forall s p, Inv s -> calm (s_ob s) (s_ob (fst (handle_packet s p))).
Proof.
  intros s p I. pose proof (oi_arena _ (inv_ob _ I)) as W.
  destruct p; cbn [handle_packet]; try apply calm_refl.
  - destruct q; [apply calm_refl| |]; destruct pid; try apply calm_refl; try apply calm_queue_ctl_checked.
    q2_split; apply calm_queue_ctl_checked.
  - pose proof (calm_ack_packet (s_ob s) pid W) as Ha.
    destruct (ack_packet _ _) as [o f]. cbn [fst] in Ha. destruct f; cbn [negb]; [|apply calm_refl]. destruct (rc_success _); exact Ha.
  - pose proof (calm_ack_packet (s_ob s) pid W) as Ha.
    destruct (ack_packet _ _) as [o f]. cbn [fst] in Ha. destruct f.
    + destruct (negb _); cbn [fst set_rt set_ob s_ob]; [exact Ha|]. destruct (check_pubrel_size _ _ _); cbn [fst set_ob s_ob]; [exact Ha|].
      destruct (queue_release o pid 0) as [o2|] eqn:E; cbn [fst set_ob s_ob]; [|exact Ha].
      eapply calm_trans; [exact Ha|eapply calm_queue_release; exact E].
    + destruct (has_pending_release _ _); [destruct (rc_success _)|]; apply calm_refl.
  - destruct (swap_remove_id _ _) as [l|].
    + exact (calm_queue_ctl_checked (set_srv s l) _ _).
    + apply calm_queue_ctl_checked.
  - pose proof (calm_ack_release (s_ob s) pid) as Ha. destruct (ack_release _ _) as [o f]. cbn [fst] in Ha.
    destruct f; cbn [negb]; [|apply calm_refl]. destruct (rc_success _); exact Ha.
  - pose proof (calm_ack_packet (s_ob s) pid W) as Ha.
    destruct (ack_packet _ _) as [o f]. cbn [fst] in Ha. destruct f; cbn [negb]; [|apply calm_refl]. destruct (all_success _); exact Ha.
  - pose proof (calm_ack_packet (s_ob s) pid W) as Ha.
    destruct (ack_packet _ _) as [o f]. cbn [fst] in Ha. destruct f; cbn [negb]; [|apply calm_refl]. destruct (all_success _); exact Ha.
Qed.

Lemma calm_enqueue : forall s k enc, Inv s -> calm (s_ob s) (s_ob (fst (enqueue_middle s k enc))).
Proof.
  intros s k enc I. pose proof (oi_arena _ (inv_ob _ I)) as W. unfold enqueue_middle. destruct (retained_full _); [apply calm_refl|].
  unfold next_packet_id. destruct (next_packet_id_go _ _ _) as [nxt id]. cbn [set_pid s_ob].
  pose proof (calm_encode_at (s_ob s) (fun cap => enc cap id) W) as He.
  destruct (encode_at (s_ob s) (fun cap => enc cap id)) as [o1 er] eqn:Ee. cbn [fst] in He.
  destruct er; cbn [fst set_ob s_ob]; [|exact He]. destruct (too_large _ _); cbn [fst set_ob s_ob]; [exact He|].
  destruct (retain_packet o1 id off len) as [o2|] eqn:Er; cbn [fst set_ob s_ob]; [|exact He].
  eapply calm_trans; [exact He|eapply calm_retain; exact Er].
Qed.

Lemma calm_publish : forall s live r, Inv s -> calm (s_ob s) (s_ob (fst (publish_middle s live r))).
Proof.
  intros s live r I. pose proof (oi_arena _ (inv_ob _ I)) as W. unfold publish_middle.
  destruct (negb (props_valid_for _ _)); [apply calm_refl|].
  pose proof (calm_compact _ W) as Hc.
  destruct (effective_qos _ _).
  - destruct (negb _); [apply calm_refl|]. destruct (enc_publish _ _); cbn [fst set_ob s_ob]; [|exact Hc].
    destruct (too_large _ _); [exact Hc|]. destruct (negb live); exact Hc.
  - unfold next_packet_id. destruct (next_packet_id_go _ _ _) as [nxt id]. cbn [set_pid s_ob s_rt].
    destruct (retained_full _); [apply calm_refl|]. destruct (negb _); [apply calm_refl|].
    match goal with |- context [encode_at (s_ob s) ?f] => set (enc := f) end.
    pose proof (calm_encode_at (s_ob s) enc W) as He.
    destruct (encode_at (s_ob s) enc) as [o1 er] eqn:Ee. cbn [fst] in He.
    destruct er; cbn [fst set_ob s_ob]; [|exact He]. destruct (too_large _ _); cbn [fst set_ob s_ob]; [exact He|].
    destruct (retain_packet o1 id off len) as [o2|] eqn:Er; cbn [fst set_ob set_rt s_ob]; [|exact He].
    eapply calm_trans; [exact He|eapply calm_retain; exact Er].
  - unfold next_packet_id. destruct (next_packet_id_go _ _ _) as [nxt id]. cbn [set_pid s_ob s_rt].
    destruct (retained_full _); [apply calm_refl|]. destruct (negb _); [apply calm_refl|].
    match goal with |- context [encode_at (s_ob s) ?f] => set (enc := f) end.
    pose proof (calm_encode_at (s_ob s) enc W) as He.
    destruct (encode_at (s_ob s) enc) as [o1 er] eqn:Ee. cbn [fst] in He.
    destruct er; cbn [fst set_ob s_ob]; [|exact He]. destruct (too_large _ _); cbn [fst set_ob s_ob]; [exact He|].
    destruct (retain_packet o1 id off len) as [o2|] eqn:Er; cbn [fst set_ob set_rt s_ob]; [|exact He].
    eapply calm_trans; [exact He|eapply calm_retain; exact Er].
Qed.

(* arm_replay: everything starts again from byte 0 *)
Lemma arm_replay_fresh : forall o, nip (arm_replay o) = 0%nat \/ arm_replay o = o /\ has_pending_state o = false.
Proof.
  intros o. unfold arm_replay. destruct (has_pending_state o) eqn:E; cbn [negb]; [left|right; split; reflexivity].
  unfold nip. cbn [ob_ctl ob_rel ob_ret mark_retained_dup]. rewrite !map_map. cbn [ce_st le_st re_st].
  rewrite !ipl_fresh_all; try reflexivity; apply Forall_forall; intros x Hx; apply in_map_iff in Hx; destruct Hx as [y [<- _]]; reflexivity.
Qed.
Lemma no_pending_nip : forall o, has_pending_state o = false -> nip o = 0%nat.
Proof.
  intros o H. unfold has_pending_state in H. destruct (ob_ctl o) eqn:E1; [|discriminate]. destruct (ob_ret o) eqn:E2; [|discriminate].
  destruct (ob_rel o) eqn:E3; [|discriminate]. unfold nip. now rewrite E1, E2, E3.
Qed.
Lemma calm_arm_replay : forall o, calm o (arm_replay o).
Proof.
  intros o. split.
  - destruct (arm_replay_fresh o) as [H|[H _]]; [lia|rewrite H; lia].
  - intros _. unfold arm_replay. destruct (has_pending_state o) eqn:E; cbn [negb].
    + cbn [ob_ctl mark_retained_dup]. apply CtlShape_all_fresh. apply Forall_forall. intros x Hx. apply in_map_iff in Hx.
      destruct Hx as [y [<- _]]. reflexivity.
    + unfold has_pending_state in E. destruct (ob_ctl o); [exact I|discriminate].
Qed.

(* a completed flush: the entry becomes Sent (and a control entry leaves the queue) *)
Lemma ipl_update_sent : forall {A} (st : A -> sstate) (p : A -> bool) (f : A -> A) l,
  (forall x, st (f x) = SSent) -> (ipl (map st (fst (update_first p f l))) <= ipl (map st l))%nat.
Proof.
  intros A st p f l Hf. induction l as [|x t IH]; cbn [update_first fst map]; [lia|].
  destruct (p x); cbn [fst map].
  - rewrite !ipl_cons, Hf. cbn. lia.
  - destruct (update_first p f t) as [t' b]. cbn [fst map] in *. rewrite !ipl_cons. lia.
Qed.
Lemma ipl_filter_notsent : forall l, ipl (map ce_st (filter (fun e => negb (sstate_eqb (ce_st e) SSent)) l)) = ipl (map ce_st l).
Proof.
  induction l as [|x t IH]; [reflexivity|]. cbn [filter map]. destruct (ce_st x) as [w| |] eqn:E; cbn [sstate_eqb negb map];
    rewrite ?ipl_cons, ?E, IH; reflexivity.
Qed.
Lemma CtlShape_flush : forall a l, CtlShape l ->
  CtlShape (filter (fun e => negb (sstate_eqb (ce_st e) SSent))
                   (fst (update_first (fun e => caction_eqb (ce_act e) a) (fun e => {| ce_act := ce_act e; ce_st := SSent |}) l))).
Proof.
  intros a [|h t] H; [exact I|]. destruct H as [H1 H2]. cbn [update_first].
  assert (Hk : forall t0 : list centry, Forall (fun x => is_fresh (ce_st x) = true) t0 ->
               filter (fun e => negb (sstate_eqb (ce_st e) SSent)) t0 = t0).
  { induction t0 as [|y t0 IH]; intros F; [reflexivity|]. inversion F; subst. cbn [filter].
    destruct (ce_st y) as [w| |]; try discriminate. cbn [sstate_eqb negb]. now rewrite IH. }
  destruct (caction_eqb (ce_act h) a); cbn [fst filter ce_st sstate_eqb negb].
  - rewrite Hk by exact H2. now apply CtlShape_all_fresh.
  - destruct (update_first _ _ t) as [t' b] eqn:E. cbn [fst filter].
    destruct (ce_st h) as [w| |] eqn:Eh; try contradiction; cbn [sstate_eqb negb]; (split; [rewrite Eh; discriminate|]);
      apply Forall_forall; intros x Hx; apply filter_In in Hx; destruct Hx as [Hx Hs];
      (assert (Ht : t' = fst (update_first (fun e => caction_eqb (ce_act e) a) (fun e => {| ce_act := ce_act e; ce_st := SSent |}) t)) by now rewrite E);
      clear E; subst t'; revert x Hx Hs; clear -H2; induction t as [|y t IH]; intros x Hx Hs; cbn [update_first fst] in Hx; try contradiction;
      inversion H2; subst;
      (destruct (caction_eqb (ce_act y) a); cbn [fst] in Hx;
       [destruct Hx as [<-|Hx]; [cbn [ce_st sstate_eqb negb] in Hs; discriminate|rewrite Forall_forall in H3; now apply H3]
       |destruct (update_first _ _ t) as [t'' b'']; cbn [fst] in *; destruct Hx as [<-|Hx]; [assumption|now apply IH]]).
Qed.

Lemma calm_complete_flush : forall s p now, calm (s_ob s) (s_ob (fst (complete_flush s p now))).
Proof.
  intros s p now. unfold complete_flush. destruct p as [a|pid|pid].
  - unfold flush_control. destruct (update_first _ _ (ob_ctl (s_ob s))) as [l b] eqn:E. cbn [fst set_rt set_ob s_ob with_ctl].
    assert (El : l = fst (update_first (fun e => caction_eqb (ce_act e) a) (fun e => {| ce_act := ce_act e; ce_st := SSent |}) (ob_ctl (s_ob s)))) by now rewrite E.
    split.
    + unfold nip, with_ctl. cbn [ob_ctl ob_rel ob_ret]. rewrite ipl_filter_notsent, El.
      pose proof (ipl_update_sent ce_st (fun e => caction_eqb (ce_act e) a) (fun e => {| ce_act := ce_act e; ce_st := SSent |}) (ob_ctl (s_ob s)) (fun _ => eq_refl)). lia.
    + unfold with_ctl. cbn [ob_ctl]. rewrite El. apply CtlShape_flush.
  - unfold flush_release. destruct (update_first _ _ (ob_rel (s_ob s))) as [l b] eqn:E. cbn [fst set_rt set_ob s_ob with_rel].
    assert (El : l = fst (update_first (fun e => N.eqb (le_pid e) pid) (fun e => {| le_pid := le_pid e; le_rc := le_rc e; le_st := SSent |}) (ob_rel (s_ob s)))) by now rewrite E.
    split; [|auto]. unfold nip, with_rel. cbn [ob_ctl ob_rel ob_ret]. rewrite El.
    pose proof (ipl_update_sent le_st (fun e => N.eqb (le_pid e) pid) (fun e => {| le_pid := le_pid e; le_rc := le_rc e; le_st := SSent |}) (ob_rel (s_ob s)) (fun _ => eq_refl)). lia.
  - unfold flush_retained. destruct (update_first _ _ (ob_ret (s_ob s))) as [l b] eqn:E. cbn [fst set_rt set_ob s_ob with_ret].
    assert (El : l = fst (update_first (fun e => N.eqb (re_pid e) pid) (fun e => {| re_pid := re_pid e; re_off := re_off e; re_len := re_len e; re_st := SSent |}) (ob_ret (s_ob s)))) by now rewrite E.
    split; [|auto]. unfold nip, with_ret. cbn [ob_ctl ob_rel ob_ret]. rewrite El.
    pose proof (ipl_update_sent re_st (fun e => N.eqb (re_pid e) pid) (fun e => {| re_pid := re_pid e; re_off := re_off e; re_len := re_len e; re_st := SSent |}) (ob_ret (s_ob s)) (fun _ => eq_refl)). lia.
Qed.

(* ---------------------------------------------------------------- counting partly written entries (same lemmas, for `sstate_partial`) *)
Definition ppl (l : list sstate) : nat := length (filter sstate_partial l).
Definition npart (o : outbound) : nat :=
  (ppl (map ce_st (ob_ctl o)) + ppl (map le_st (ob_rel o)) + ppl (map re_st (ob_ret o)))%nat.


Lemma ppl_app : forall a b, ppl (a ++ b) = (ppl a + ppl b)%nat.
Proof. intros. unfold ppl. now rewrite filter_app, app_length. Qed.
Lemma ppl_cons : forall x l, ppl (x :: l) = ((if sstate_partial x then 1 else 0) + ppl l)%nat.
Proof. intros. unfold ppl. cbn [filter]. destruct (sstate_partial x); reflexivity. Qed.
Lemma ppl_fresh_all : forall l, Forall (fun s => sstate_partial s = false) l -> ppl l = 0%nat.
Proof. induction l as [|x t IH]; intros H; [reflexivity|]. inversion H; subst. rewrite ppl_cons, H2, IH; auto. Qed.
Lemma ppl_fresh1 : ppl [SWrite 0] = 0%nat.
Proof. reflexivity. Qed.
Lemma fresh_not_partial : forall s, is_fresh s = true -> sstate_partial s = false.
Proof. intros [w| |] H; cbn in *; try discriminate. now rewrite H. Qed.

(* relation "nothing got worse" between two outbound states *)
Definition calmp (o o' : outbound) : Prop :=
  (npart o' <= npart o)%nat /\ (CtlShape (ob_ctl o) -> CtlShape (ob_ctl o')).
Lemma calmp_refl : forall o, calmp o o.
Proof. intros. split; [lia|auto]. Qed.
Lemma calmp_trans : forall a b c, calmp a b -> calmp b c -> calmp a c.
Proof. intros a b c [H1 H2] [H3 H4]. split; [lia|auto]. Qed.
Lemma calmp_same_lists : forall o o', map ce_st (ob_ctl o') = map ce_st (ob_ctl o) -> ob_ctl o' = ob_ctl o ->
  map le_st (ob_rel o') = map le_st (ob_rel o) -> map re_st (ob_ret o') = map re_st (ob_ret o) -> calmp o o'.
Proof. intros o o' H1 H1' H2 H3. split; [unfold npart; rewrite H1, H2, H3; lia|now rewrite H1']. Qed.


Lemma calmp_queue_control : forall o a o', queue_control o a = Some o' -> calmp o o'.
Proof.
  intros o a o' H. unfold queue_control in H. destruct (_ <=? _); [discriminate|]. inversion H; subst. split.
  - unfold npart. cbn [ob_ctl ob_rel ob_ret]. rewrite map_app, ppl_app. cbn [map ce_st]. rewrite ppl_fresh1. lia.
  - cbn [ob_ctl]. apply CtlShape_app_fresh.
Qed.
Lemma calmp_queue_release : forall o pid rc o', queue_release o pid rc = Some o' -> calmp o o'.
Proof.
  intros o pid rc o' H. unfold queue_release in H. destruct (_ <=? _); [discriminate|]. inversion H; subst. split.
  - unfold npart. cbn [ob_ctl ob_rel ob_ret]. rewrite map_app, ppl_app. cbn [map le_st]. rewrite ppl_fresh1. lia.
  - cbn [ob_ctl]. auto.
Qed.
Lemma calmp_retain : forall o pid off len o', retain_packet o pid off len = Some o' -> calmp o o'.
Proof.
  intros o pid off len o' H. unfold retain_packet in H. destruct (_ <=? _); [discriminate|]. inversion H; subst. split.
  - unfold npart. cbn [ob_ctl ob_rel ob_ret]. rewrite map_app, ppl_app. cbn [map re_st]. rewrite ppl_fresh1. lia.
  - cbn [ob_ctl]. auto.
Qed.
Lemma calmp_compact : forall o, arena_wf o -> calmp o (compact o).
Proof.
  intros o W. destruct (compact_spec o W) as [_ [_ [_ [_ [C5 [C6 [_ [_ [C9 _]]]]]]]]].
  apply calmp_same_lists; [now rewrite C5|exact C5|now rewrite C6|exact C9].
Qed.
Lemma calmp_dup : forall o, calmp o (mark_retained_dup o).
Proof. intros. apply calmp_same_lists; reflexivity. Qed.
Lemma ppl_remove_mid : forall a (x : sstate) b, (ppl (a ++ b) <= ppl (a ++ x :: b))%nat.
Proof. intros. rewrite !ppl_app, ppl_cons. lia. Qed.
Lemma calmp_ack_packet : forall o pid, arena_wf o -> calmp o (fst (ack_packet o pid)).
Proof.
  intros o pid W. unfold ack_packet. destruct (remove_first_ret pid (ob_ret o)) as [es|] eqn:E; cbn [fst]; [|apply calmp_refl].
  destruct (remove_first_ret_order _ _ _ E) as [a [x [b [H1 [H2 _]]]]].
  set (o1 := {| ob_buf := ob_buf o; ob_used := ob_used o; ob_ctl := ob_ctl o; ob_ret := es; ob_rel := ob_rel o |}).
  assert (C1 : calmp o o1).
  { split; [|auto]. unfold npart, o1. cbn [ob_ctl ob_rel ob_ret]. rewrite H1, H2, !map_app. cbn [map].
    pose proof (ppl_remove_mid (map re_st a) (re_st x) (map re_st b)). lia. }
  eapply calmp_trans; [exact C1|]. apply calmp_compact.
  destruct W as [W U]. split; [|exact U]. unfold o1. cbn [ob_ret ob_used]. eapply remove_first_ret_wf; eassumption.
Qed.
Lemma calmp_ack_release : forall o pid, calmp o (fst (ack_release o pid)).
Proof.
  intros o pid. unfold ack_release. destruct (remove_first_rel pid (ob_rel o)) as [es|] eqn:E; cbn [fst]; [|apply calmp_refl].
  destruct (remove_first_rel_order _ _ _ E) as [a [x [b [H1 [H2 _]]]]]. split; [|auto].
  unfold npart. cbn [ob_ctl ob_rel ob_ret]. rewrite H1, H2, !map_app. cbn [map].
  pose proof (ppl_remove_mid (map le_st a) (le_st x) (map le_st b)). lia.
Qed.
Lemma calmp_encode_at : forall o enc, arena_wf o -> calmp o (fst (encode_at o enc)).
Proof.
  intros o enc W. unfold encode_at. destruct (enc _); cbn [fst]; [|now apply calmp_compact].
  eapply calmp_trans; [apply calmp_compact; exact W|]. apply calmp_same_lists; reflexivity.
Qed.
Lemma calmp_queue_ctl_checked : forall s a d, calmp (s_ob s) (s_ob (fst (queue_ctl_checked s a d))).
Proof.
  intros. unfold queue_ctl_checked. destruct (check_control_size _ _); [apply calmp_refl|].
  destruct (queue_control (s_ob s) a) as [o|] eqn:E; cbn [fst]; [|apply calmp_refl]. cbn [set_ob s_ob]. eapply calmp_queue_control; exact E.
Qed.

Lemma calmp_handle_packet : forall s p, Inv s -> calmp (s_ob s) (s_ob (fst (handle_packet s p))).
Proof.
  intros s p I. pose proof (oi_arena _ (inv_ob _ I)) as W.
  destruct p; cbn [handle_packet]; try apply calmp_refl.
  - destruct q; [apply calmp_refl| |]; destruct pid; try apply calmp_refl; try apply calmp_queue_ctl_checked.
    q2_split; apply calmp_queue_ctl_checked.
  - pose proof (calmp_ack_packet (s_ob s) pid W) as Ha.
    destruct (ack_packet _ _) as [o f]. cbn [fst] in Ha. destruct f; cbn [negb]; [|apply calmp_refl]. destruct (rc_success _); exact Ha.
  - pose proof (calmp_ack_packet (s_ob s) pid W) as Ha.
    destruct (ack_packet _ _) as [o f]. cbn [fst] in Ha. destruct f.
    + destruct (negb _); cbn [fst set_rt set_ob s_ob]; [exact Ha|]. destruct (check_pubrel_size _ _ _); cbn [fst set_ob s_ob]; [exact Ha|].
      destruct (queue_release o pid 0) as [o2|] eqn:E; cbn [fst set_ob s_ob]; [|exact Ha].
      eapply calmp_trans; [exact Ha|eapply calmp_queue_release; exact E].
    + destruct (has_pending_release _ _); [destruct (rc_success _)|]; apply calmp_refl.
  - destruct (swap_remove_id _ _) as [l|].
    + exact (calmp_queue_ctl_checked (set_srv s l) _ _).
    + apply calmp_queue_ctl_checked.
  - pose proof (calmp_ack_release (s_ob s) pid) as Ha. destruct (ack_release _ _) as [o f]. cbn [fst] in Ha.
    destruct f; cbn [negb]; [|apply calmp_refl]. destruct (rc_success _); exact Ha.
  - pose proof (calmp_ack_packet (s_ob s) pid W) as Ha.
    destruct (ack_packet _ _) as [o f]. cbn [fst] in Ha. destruct f; cbn [negb]; [|apply calmp_refl]. destruct (all_success _); exact Ha.
  - pose proof (calmp_ack_packet (s_ob s) pid W) as Ha.
    destruct (ack_packet _ _) as [o f]. cbn [fst] in Ha. destruct f; cbn [negb]; [|apply calmp_refl]. destruct (all_success _); exact Ha.
Qed.

Lemma calmp_enqueue : forall s k enc, Inv s -> calmp (s_ob s) (s_ob (fst (enqueue_middle s k enc))).
Proof.
  intros s k enc I. pose proof (oi_arena _ (inv_ob _ I)) as W. unfold enqueue_middle. destruct (retained_full _); [apply calmp_refl|].
  unfold next_packet_id. destruct (next_packet_id_go _ _ _) as [nxt id]. cbn [set_pid s_ob].
  pose proof (calmp_encode_at (s_ob s) (fun cap => enc cap id) W) as He.
  destruct (encode_at (s_ob s) (fun cap => enc cap id)) as [o1 er] eqn:Ee. cbn [fst] in He.
  destruct er; cbn [fst set_ob s_ob]; [|exact He]. destruct (too_large _ _); cbn [fst set_ob s_ob]; [exact He|].
  destruct (retain_packet o1 id off len) as [o2|] eqn:Er; cbn [fst set_ob s_ob]; [|exact He].
  eapply calmp_trans; [exact He|eapply calmp_retain; exact Er].
Qed.

Lemma calmp_publish : forall s live r, Inv s -> calmp (s_ob s) (s_ob (fst (publish_middle s live r))).
Proof.
  intros s live r I. pose proof (oi_arena _ (inv_ob _ I)) as W. unfold publish_middle.
  destruct (negb (props_valid_for _ _)); [apply calmp_refl|].
  pose proof (calmp_compact _ W) as Hc.
  destruct (effective_qos _ _).
  - destruct (negb _); [apply calmp_refl|]. destruct (enc_publish _ _); cbn [fst set_ob s_ob]; [|exact Hc].
    destruct (too_large _ _); [exact Hc|]. destruct (negb live); exact Hc.
  - unfold next_packet_id. destruct (next_packet_id_go _ _ _) as [nxt id]. cbn [set_pid s_ob s_rt].
    destruct (retained_full _); [apply calmp_refl|]. destruct (negb _); [apply calmp_refl|].
    match goal with |- context [encode_at (s_ob s) ?f] => set (enc := f) end.
    pose proof (calmp_encode_at (s_ob s) enc W) as He.
    destruct (encode_at (s_ob s) enc) as [o1 er] eqn:Ee. cbn [fst] in He.
    destruct er; cbn [fst set_ob s_ob]; [|exact He]. destruct (too_large _ _); cbn [fst set_ob s_ob]; [exact He|].
    destruct (retain_packet o1 id off len) as [o2|] eqn:Er; cbn [fst set_ob set_rt s_ob]; [|exact He].
    eapply calmp_trans; [exact He|eapply calmp_retain; exact Er].
  - unfold next_packet_id. destruct (next_packet_id_go _ _ _) as [nxt id]. cbn [set_pid s_ob s_rt].
    destruct (retained_full _); [apply calmp_refl|]. destruct (negb _); [apply calmp_refl|].
    match goal with |- context [encode_at (s_ob s) ?f] => set (enc := f) end.
    pose proof (calmp_encode_at (s_ob s) enc W) as He.
    destruct (encode_at (s_ob s) enc) as [o1 er] eqn:Ee. cbn [fst] in He.
    destruct er; cbn [fst set_ob s_ob]; [|exact He]. destruct (too_large _ _); cbn [fst set_ob s_ob]; [exact He|].
    destruct (retain_packet o1 id off len) as [o2|] eqn:Er; cbn [fst set_ob set_rt s_ob]; [|exact He].
    eapply calmp_trans; [exact He|eapply calmp_retain; exact Er].
Qed.

(* arm_replay: everything starts again from byte 0 *)
Lemma arm_replay_quiet : forall o, npart (arm_replay o) = 0%nat \/ arm_replay o = o /\ has_pending_state o = false.
Proof.
  intros o. unfold arm_replay. destruct (has_pending_state o) eqn:E; cbn [negb]; [left|right; split; reflexivity].
  unfold npart. cbn [ob_ctl ob_rel ob_ret mark_retained_dup]. rewrite !map_map. cbn [ce_st le_st re_st].
  rewrite !ppl_fresh_all; try reflexivity; apply Forall_forall; intros x Hx; apply in_map_iff in Hx; destruct Hx as [y [<- _]]; reflexivity.
Qed.
Lemma no_pending_npart : forall o, has_pending_state o = false -> npart o = 0%nat.
Proof.
  intros o H. unfold has_pending_state in H. destruct (ob_ctl o) eqn:E1; [|discriminate]. destruct (ob_ret o) eqn:E2; [|discriminate].
  destruct (ob_rel o) eqn:E3; [|discriminate]. unfold npart. now rewrite E1, E2, E3.
Qed.
Lemma calmp_arm_replay : forall o, calmp o (arm_replay o).
Proof.
  intros o. split.
  - destruct (arm_replay_quiet o) as [H|[H _]]; [lia|rewrite H; lia].
  - intros _. unfold arm_replay. destruct (has_pending_state o) eqn:E; cbn [negb].
    + cbn [ob_ctl mark_retained_dup]. apply CtlShape_all_fresh. apply Forall_forall. intros x Hx. apply in_map_iff in Hx.
      destruct Hx as [y [<- _]]. reflexivity.
    + unfold has_pending_state in E. destruct (ob_ctl o); [exact I|discriminate].
Qed.

(* a completed flush: the entry becomes Sent (and a control entry leaves the queue) *)
Lemma ppl_update_sent : forall {A} (st : A -> sstate) (p : A -> bool) (f : A -> A) l,
  (forall x, st (f x) = SSent) -> (ppl (map st (fst (update_first p f l))) <= ppl (map st l))%nat.
Proof.
  intros A st p f l Hf. induction l as [|x t IH]; cbn [update_first fst map]; [lia|].
  destruct (p x); cbn [fst map].
  - rewrite !ppl_cons, Hf. cbn. lia.
  - destruct (update_first p f t) as [t' b]. cbn [fst map] in *. rewrite !ppl_cons. lia.
Qed.
Lemma ppl_filter_notsent : forall l, ppl (map ce_st (filter (fun e => negb (sstate_eqb (ce_st e) SSent)) l)) = ppl (map ce_st l).
Proof.
  induction l as [|x t IH]; [reflexivity|]. cbn [filter map]. destruct (ce_st x) as [w| |] eqn:E; cbn [sstate_eqb negb map];
    rewrite ?ppl_cons, ?E, IH; reflexivity.
Qed.

Lemma calmp_complete_flush : forall s p now, calmp (s_ob s) (s_ob (fst (complete_flush s p now))).
Proof.
  intros s p now. unfold complete_flush. destruct p as [a|pid|pid].
  - unfold flush_control. destruct (update_first _ _ (ob_ctl (s_ob s))) as [l b] eqn:E. cbn [fst set_rt set_ob s_ob with_ctl].
    assert (El : l = fst (update_first (fun e => caction_eqb (ce_act e) a) (fun e => {| ce_act := ce_act e; ce_st := SSent |}) (ob_ctl (s_ob s)))) by now rewrite E.
    split.
    + unfold npart, with_ctl. cbn [ob_ctl ob_rel ob_ret]. rewrite ppl_filter_notsent, El.
      pose proof (ppl_update_sent ce_st (fun e => caction_eqb (ce_act e) a) (fun e => {| ce_act := ce_act e; ce_st := SSent |}) (ob_ctl (s_ob s)) (fun _ => eq_refl)). lia.
    + unfold with_ctl. cbn [ob_ctl]. rewrite El. apply CtlShape_flush.
  - unfold flush_release. destruct (update_first _ _ (ob_rel (s_ob s))) as [l b] eqn:E. cbn [fst set_rt set_ob s_ob with_rel].
    assert (El : l = fst (update_first (fun e => N.eqb (le_pid e) pid) (fun e => {| le_pid := le_pid e; le_rc := le_rc e; le_st := SSent |}) (ob_rel (s_ob s)))) by now rewrite E.
    split; [|auto]. unfold npart, with_rel. cbn [ob_ctl ob_rel ob_ret]. rewrite El.
    pose proof (ppl_update_sent le_st (fun e => N.eqb (le_pid e) pid) (fun e => {| le_pid := le_pid e; le_rc := le_rc e; le_st := SSent |}) (ob_rel (s_ob s)) (fun _ => eq_refl)). lia.
  - unfold flush_retained. destruct (update_first _ _ (ob_ret (s_ob s))) as [l b] eqn:E. cbn [fst set_rt set_ob s_ob with_ret].
    assert (El : l = fst (update_first (fun e => N.eqb (re_pid e) pid) (fun e => {| re_pid := re_pid e; re_off := re_off e; re_len := re_len e; re_st := SSent |}) (ob_ret (s_ob s)))) by now rewrite E.
    split; [|auto]. unfold npart, with_ret. cbn [ob_ctl ob_rel ob_ret]. rewrite El.
    pose proof (ppl_update_sent re_st (fun e => N.eqb (re_pid e) pid) (fun e => {| re_pid := re_pid e; re_off := re_off e; re_len := re_len e; re_st := SSent |}) (ob_ret (s_ob s)) (fun _ => eq_refl)). lia.
Qed.


(* ---------------------------------------------------------------- the write step *)
Definition b2n (b : bool) : nat := if b then 1%nat else 0%nat.

Lemma next_step_entry : forall o st, next_step o = Some st ->
  match st with
  | StCtl a s0 => exists e, In e (ob_ctl o) /\ ce_act e = a /\ ce_st e = s0
  | StRel pid rc s0 => exists e, In e (ob_rel o) /\ le_pid e = pid /\ le_rc e = rc /\ le_st e = s0
  | StRet pid off len s0 => exists e, In e (ob_ret o) /\ re_pid e = pid /\ re_off e = off /\ re_len e = len /\ re_st e = s0
  end.
Proof.
  intros o st H. unfold next_step, orelse in H.
  assert (G : forall p, next_step_pass o p = Some st ->
    match st with
    | StCtl a s0 => exists e, In e (ob_ctl o) /\ ce_act e = a /\ ce_st e = s0
    | StRel pid rc s0 => exists e, In e (ob_rel o) /\ le_pid e = pid /\ le_rc e = rc /\ le_st e = s0
    | StRet pid off len s0 => exists e, In e (ob_ret o) /\ re_pid e = pid /\ re_off e = off /\ re_len e = len /\ re_st e = s0
    end).
  { intros p Hp. unfold next_step_pass, orelse, find_ctl, find_rel, find_ret in Hp.
    destruct (find (fun e => matches_priority (ce_st e) p) (ob_ctl o)) as [e|] eqn:E1.
    - inversion Hp; subst. apply find_some in E1. exists e. repeat split. exact (proj1 E1).
    - destruct (find (fun e => matches_priority (le_st e) p) (ob_rel o)) as [e|] eqn:E2.
      + inversion Hp; subst. apply find_some in E2. exists e. repeat split. exact (proj1 E2).
      + destruct (find (fun e => matches_priority (re_st e) p) (ob_ret o)) as [e|] eqn:E3; [|discriminate].
        inversion Hp; subst. apply find_some in E3. exists e. repeat split. exact (proj1 E3). }
  destruct (next_step_pass o true) as [st1|] eqn:E1.
  - inversion H; subst. now apply (G true).
  - now apply (G false).
Qed.

Lemma find_head_shape : forall p h t, Forall (fun x => is_fresh (ce_st x) = true) t ->
  find (fun e => matches_priority (ce_st e) true) (h :: t) = Some p -> p = h.
Proof.
  intros p h t F H. cbn [find] in H. destruct (matches_priority (ce_st h) true); [now inversion H|].
  exfalso. apply find_some in H. destruct H as [Hi Hm]. rewrite Forall_forall in F. specialize (F _ Hi).
  cbn [matches_priority] in Hm. rewrite (fresh_not_ip _ F) in Hm. discriminate.
Qed.

(* under CtlShape the control entry the engine picks is the head of the queue *)
Lemma ctl_step_head : forall o a st, CtlShape (ob_ctl o) -> next_step o = Some (StCtl a st) ->
  exists t, ob_ctl o = {| ce_act := a; ce_st := st |} :: t.
Proof.
  intros o a st Hs H. unfold next_step, orelse in H.
  destruct (ob_ctl o) as [|h t] eqn:Ec.
  { exfalso. assert (G : forall p, next_step_pass o p <> Some (StCtl a st)).
    { intros p Hp. unfold next_step_pass, orelse, find_ctl, find_rel, find_ret in Hp. rewrite Ec in Hp. cbn [find] in Hp.
      destruct (find _ (ob_rel o)); [discriminate|]. destruct (find _ (ob_ret o)); discriminate. }
    destruct (next_step_pass o true) eqn:E1; [inversion H; subst; exact (G true E1)|exact (G false H)]. }
  destruct Hs as [Hh Ht]. exists t.
  assert (Hd : forall e : centry, {| ce_act := ce_act e; ce_st := ce_st e |} = e) by (intros []; reflexivity).
  destruct (next_step_pass o true) as [st1|] eqn:E1.
  - inversion H; subst. unfold next_step_pass, orelse, find_ctl in E1. rewrite Ec in E1.
    destruct (find (fun e => matches_priority (ce_st e) true) (h :: t)) as [e|] eqn:Ef.
    + inversion E1; subst. rewrite (find_head_shape e h t Ht Ef). now rewrite Hd.
    + unfold find_rel, find_ret in E1. destruct (find _ (ob_rel o)); [discriminate|]. destruct (find _ (ob_ret o)); discriminate.
  - (* nothing in progress anywhere: the head is fresh and is the first fresh entry *)
    assert (Hf : is_fresh (ce_st h) = true).
    { unfold next_step_pass, orelse, find_ctl in E1. rewrite Ec in E1. cbn [find matches_priority] in E1.
      destruct (ce_st h) as [w| |] eqn:Es.
      * cbn [is_in_progress is_fresh] in *. destruct (N.eqb w 0); [reflexivity|]. cbn [negb] in E1. discriminate.
      * cbn [is_in_progress] in E1. discriminate.
      * now elim Hh. }
    unfold next_step_pass, orelse, find_ctl in H. rewrite Ec in H. cbn [find matches_priority] in H. rewrite Hf in H.
    inversion H; subst. now rewrite Hd.
Qed.

Lemma caction_eqb_refl : forall a, caction_eqb a a = true.
Proof. intros [p r|p r|p r|]; cbn [caction_eqb]; rewrite ?N.eqb_refl; reflexivity. Qed.

(* with distinct keys the update reaches exactly the entry that carries the key *)
Lemma ipl_update_key : forall {A} (key : A -> N) (st : A -> sstate) (f : A -> A) l e,
  NoDup (map key l) -> In e l ->
  (ipl (map st (fst (update_first (fun x => N.eqb (key x) (key e)) f l))) + b2n (is_in_progress (st e)) =
   ipl (map st l) + b2n (is_in_progress (st (f e))))%nat.
Proof.
  intros A key st f l e. induction l as [|y t IH]; intros Hn Hi; [contradiction|].
  cbn [map] in Hn. inversion Hn as [|? ? Hy Ht]; subst. cbn [update_first].
  destruct (N.eqb_spec (key y) (key e)) as [E|E].
  - assert (y = e).
    { destruct Hi as [->|Hi]; [reflexivity|]. exfalso. apply Hy. rewrite E. apply in_map. exact Hi. }
    subst y. cbn [fst map]. rewrite !ipl_cons. unfold b2n. destruct (is_in_progress (st e)), (is_in_progress (st (f e))); lia.
  - destruct Hi as [->|Hi]; [contradiction|]. specialize (IH Ht Hi).
    destruct (update_first _ f t) as [t' b]. cbn [fst map] in *. rewrite !ipl_cons. lia.
Qed.

Lemma NoDup_app_l : forall (a b : list N), NoDup (a ++ b) -> NoDup a.
Proof.
  induction a as [|x t IH]; intros b H; [constructor|]. cbn [app] in H. inversion H; subst.
  constructor; [intros Hi; apply H2; apply in_or_app; now left|eapply IH; eassumption].
Qed.
Lemma NoDup_app_r : forall (a b : list N), NoDup (a ++ b) -> NoDup b.
Proof. induction a as [|x t IH]; intros b H; [exact H|]. cbn [app] in H. inversion H; subst. now apply IH. Qed.
Lemma nodup_ids : forall o, NoDup (ids o) -> NoDup (map re_pid (ob_ret o)) /\ NoDup (map le_pid (ob_rel o)).
Proof. intros o H. unfold ids in H. split; [eapply NoDup_app_l|eapply NoDup_app_r]; exact H. Qed.

Lemma sws_not_sent : forall w len, set_written_state w len <> SSent.
Proof. intros. unfold set_written_state. destruct (_ <=? _); discriminate. Qed.

Lemma nothing_in_progress_nip : forall o,
  (forall e, In e (ob_ctl o) -> is_in_progress (ce_st e) = false) ->
  (forall e, In e (ob_rel o) -> is_in_progress (le_st e) = false) ->
  (forall e, In e (ob_ret o) -> is_in_progress (re_st e) = false) -> nip o = 0%nat.
Proof.
  intros o H1 H2 H3. unfold nip.
  rewrite !ipl_fresh_all; try reflexivity; apply Forall_forall; intros x Hx; apply in_map_iff in Hx; destruct Hx as [y [<- Hy]]; auto.
Qed.

Theorem written_step : forall s st p bs w len n,
  Inv s -> Single (s_ob s) -> CtlShape (ob_ctl (s_ob s)) ->
  next_step (s_ob s) = Some st -> prepare_step s st = PWrite p bs w len ->
  Single (s_ob (fst (set_written s p (w + n) len))) /\ CtlShape (ob_ctl (s_ob (fst (set_written s p (w + n) len)))).
Proof.
  intros s st p bs w len n I Hs Hc Hn Hp.
  destruct (engine_resumes_at_offset s st p bs w len Hp) as [Hst Hkey].
  pose proof (next_step_entry _ _ Hn) as He.
  (* when the chosen entry is fresh nothing at all is in progress *)
  assert (Hz : is_in_progress (SWrite w) = false -> nip (s_ob s) = 0%nat).
  { intros Hf. destruct (fresh_only_when_nothing_in_progress (s_ob s) st Hn) as [F1 [F2 F3]]; [now rewrite Hst|].
    now apply nothing_in_progress_nip. }
  destruct (nodup_ids _ (oi_nodup _ (inv_ob _ I))) as [Nret Nrel].
  unfold Single in *. unfold set_written.
  destruct st as [a s0|pid rc s0|pid off l0 s0]; cbn [step_state] in Hst; subst s0.
  - (* control *) subst p. destruct (ctl_step_head _ _ _ Hc Hn) as [t Et].
    unfold set_control_written. rewrite Et. cbn [update_first ce_act]. rewrite caction_eqb_refl. cbn [fst set_ob s_ob with_ctl ob_ctl].
    split.
    + unfold nip, with_ctl in *. cbn [ob_ctl ob_rel ob_ret]. rewrite Et in Hs. cbn [map ce_st] in *. rewrite ipl_cons in *.
      destruct (is_in_progress (SWrite w)) eqn:Ei.
      * destruct (is_in_progress (set_written_state (w + n) len)); lia.
      * specialize (Hz eq_refl). unfold nip in Hz. rewrite Et in Hz. cbn [map ce_st] in Hz. rewrite ipl_cons, Ei in Hz.
        destruct (is_in_progress (set_written_state (w + n) len)); lia.
    + unfold with_ctl. cbn [ob_ctl]. rewrite Et in Hc. destruct Hc as [_ Ht]. split; [apply sws_not_sent|exact Ht].
  - (* release *) subst p. destruct He as [e [Hin [Hpid [_ Hse]]]].
    unfold set_release_written. destruct (update_first _ _ (ob_rel (s_ob s))) as [l b] eqn:E. cbn [fst set_ob s_ob with_rel ob_ctl].
    split; [|unfold with_rel; exact Hc].
    pose proof (ipl_update_key le_pid le_st (fun e0 => {| le_pid := le_pid e0; le_rc := le_rc e0; le_st := set_written_state (w + n) len |})
                  (ob_rel (s_ob s)) e Nrel Hin) as Hk.
    rewrite Hpid, E in Hk. cbn [fst le_st] in Hk. rewrite Hse in Hk.
    unfold nip, with_rel in *. cbn [ob_ctl ob_rel ob_ret].
    destruct (is_in_progress (SWrite w)) eqn:Ei; unfold b2n in Hk.
    + destruct (is_in_progress (set_written_state (w + n) len)); lia.
    + specialize (Hz eq_refl). unfold nip in Hz. destruct (is_in_progress (set_written_state (w + n) len)); lia.
  - (* retained *) destruct Hkey as [-> _]. destruct He as [e [Hin [Hpid [_ [_ Hse]]]]].
    unfold set_retained_written. destruct (update_first _ _ (ob_ret (s_ob s))) as [l b] eqn:E. cbn [fst set_ob s_ob with_ret ob_ctl].
    split; [|unfold with_ret; exact Hc].
    pose proof (ipl_update_key re_pid re_st (fun e0 => {| re_pid := re_pid e0; re_off := re_off e0; re_len := re_len e0; re_st := set_written_state (w + n) len |})
                  (ob_ret (s_ob s)) e Nret Hin) as Hk.
    rewrite Hpid, E in Hk. cbn [fst re_st] in Hk. rewrite Hse in Hk.
    unfold nip, with_ret in *. cbn [ob_ctl ob_rel ob_ret].
    destruct (is_in_progress (SWrite w)) eqn:Ei; unfold b2n in Hk.
    + destruct (is_in_progress (set_written_state (w + n) len)); lia.
    + specialize (Hz eq_refl). unfold nip in Hz. destruct (is_in_progress (set_written_state (w + n) len)); lia.
Qed.

(* ---------------------------------------------------------------- closure under every session step *)
Definition WInv (s : session) : Prop :=
  Inv s /\ FrameInv (s_ob s) /\ Single (s_ob s) /\ CtlShape (ob_ctl (s_ob s)).

Lemma calm_keeps : forall o o', calm o o' -> Single o -> CtlShape (ob_ctl o) -> Single o' /\ CtlShape (ob_ctl o').
Proof. intros o o' [H1 H2] Hs Hc. unfold Single in *. split; [lia|auto]. Qed.

Theorem shape_step : forall s l s', sstep s l s' -> Inv s -> Single (s_ob s) -> CtlShape (ob_ctl (s_ob s)) ->
  Single (s_ob s') /\ CtlShape (ob_ctl (s_ob s')).
Proof.
  intros s l s' H I Hs Hc. pose proof (oi_arena _ (inv_ob _ I)) as W.
  assert (K : forall o', calm (s_ob s) o' -> Single o' /\ CtlShape (ob_ctl o')) by (intros o' C; eapply calm_keeps; eassumption).
  inversion H; subst; clear H.
  - apply K. cbn [sess_handle_disconnect set_reader set_rt set_ob s_ob]. apply calm_arm_replay.
  - apply K. unfold maybe_queue_pingreq. destruct (should_queue_pingreq _ _); [|apply calm_refl]. destruct (check_control_size _ _); [apply calm_refl|].
    destruct (queue_control (s_ob s) CPing) as [o|] eqn:E; cbn [fst]; [|apply calm_refl]. cbn [set_ob s_ob]. eapply calm_queue_control; exact E.
  - eapply written_step; eassumption.
  - apply K. apply calm_complete_flush.
  - apply K. apply calm_refl.
  - apply K. now apply calm_handle_packet.
  - apply K. now apply calm_publish.
  - apply K. unfold subscribe_middle. now apply calm_enqueue.
  - apply K. unfold unsubscribe_middle. now apply calm_enqueue.
  - apply K. apply calm_refl.
  - apply K. apply calm_refl.
  - apply K. apply calm_refl.
  - apply K. cbn [set_ob s_ob]. apply calm_arm_replay.
  - apply K. cbn [set_ob s_ob]. now apply calm_compact.
  - apply K. unfold connack_process. destruct p as [p|]; [|apply calm_refl]. destruct p; try apply calm_refl.
    destruct (negb _); [apply calm_refl|]. cbv zeta. destruct (connack_props _ _ _); cbn [fst]; [|apply calm_refl].
    destruct sp; cbn [s_ob]; [apply calm_refl|]. cbn [data_reset s_ob]. split; [unfold nip; cbn [ob_clear ob_ctl ob_rel ob_ret map]; cbn; lia|intros _; exact Logic.I].
  - apply K. apply calm_refl.
Qed.

Theorem WInv_step : forall s l s', sstep s l s' -> WInv s -> WInv s'.
Proof.
  intros s l s' H [I [F [Hs Hc]]]. destruct (shape_step s l s' H I Hs Hc) as [Hs' Hc'].
  refine (conj _ (conj _ (conj Hs' Hc'))).
  - eapply Inv_step; eassumption.
  - eapply FrameInv_step; eassumption.
Qed.
