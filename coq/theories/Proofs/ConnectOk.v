(* ConnectOk.v — C12, the positive half: on a healthy transport (every I/O call succeeds in full) with the conformant
   automatic broker (mode 2), connect() runs to completion in EVERY session state in which the CONNECT fits the free
   tail of the transmit arena — whatever happened on earlier connections. *)
From Coq Require Import List NArith Lia Bool.
From Coq Require Import ZifyBool ZifyN ZifyNat.
From Minimq Require Import Bytes Varint Utf8 Props Ser De Reader Spec Arena Core Show Machine Parse Run Util Lts Refine
  VarintProofs SerLemmas CodecProofs Inv Frames Reconnect.
Import ListNotations.
Local Open Scope N_scope.

(* ---------- the layout of a CONNECT ---------- *)
Lemma encode_chunks_content : forall cap typ flags cs off bs,
  encode_chunks cap typ flags cs = SOk off bs ->
  exists rl body, concat_chunks cs = Some body /\ bs = (typ * 16 + flags mod 16) :: rl ++ body /\ varint_write (lenN body) = Some rl.
Proof.
  intros cap typ flags cs off bs H. unfold encode_chunks in H.
  destruct (ser_push cap 5 cs []) as [idx body|e] eqn:E; [|discriminate].
  destruct (ser_push_content _ _ _ _ _ _ E) as [r [Hr Hb]]. cbn [app] in Hb. subst body.
  pose proof (ser_push_spec _ _ _ _ _ _ E) as [S1 [S2 S3]]. rewrite lenN_nil in S3.
  unfold finalize in H. destruct (varint_write (idx - 5)) as [rl|] eqn:Ev; [|discriminate].
  destruct (cap <? 5); [discriminate|]. injection H as _ <-.
  exists rl, r. split; [exact Hr|]. split; [reflexivity|]. replace (lenN r) with (idx - 5) by lia. exact Ev.
Qed.

Definition connect_head (fl : N) : bytes := [0; 4; 77; 81; 84; 84; 5; fl].

Lemma connect_layout : forall cap r off bs, enc_connect cap r = SOk off bs ->
  exists rl rest, bs = 16 :: rl ++ connect_head (connect_flags r) ++ rest /\
                  varint_write (lenN (connect_head (connect_flags r) ++ rest)) = Some rl.
Proof.
  intros cap r off bs H. unfold enc_connect in H. destruct (encode_chunks_content _ _ _ _ _ _ H) as [rl [body [Hc [Hb Hv]]]].
  assert (Hs : exists tl, connect_chunks r = [c_str MQTT_NAME; c_u8 5; c_u8 (connect_flags r)] ++ tl).
  { unfold connect_chunks. eexists. cbn [app]. reflexivity. }
  destruct Hs as [tl Hs]. rewrite Hs, concat_chunks_app in Hc.
  change (concat_chunks [c_str MQTT_NAME; c_u8 5; c_u8 (connect_flags r)]) with (Some (connect_head (connect_flags r))) in Hc.
  destruct (concat_chunks tl) as [rest|]; [|discriminate].
  inversion Hc; subst body. exists rl, rest. split; [exact Hb|exact Hv].
Qed.

(* ---------- the automatic broker answers a whole CONNECT ---------- *)
Definition connack_for (fl : N) : bytes := [32; 3; (if N.testbit fl 1 then 0 else 1); 0; 0].

Lemma broker_split_connect : forall fl rl rest,
  varint_write (lenN (connect_head fl ++ rest)) = Some rl ->
  let bs := 16 :: rl ++ connect_head fl ++ rest in
  broker_split 2 (S (length bs)) bs [] = (connack_for fl, []).
Proof.
  intros fl rl rest Hv bs. cbn [broker_split]. unfold bs at 1.
  rewrite (varint_roundtrip _ _ (connect_head fl ++ rest) Hv).
  destruct (N.ltb_spec (lenN (connect_head fl ++ rest)) (lenN (connect_head fl ++ rest))) as [L|L]; [lia|].
  replace (1 + (lenN (rl ++ connect_head fl ++ rest) - lenN (connect_head fl ++ rest)) + lenN (connect_head fl ++ rest)) with (lenN bs)
    by (unfold bs; rewrite lenN_cons, !lenN_app; lia).
  rewrite (dropN_all bs (lenN bs)) by lia. rewrite (takeN_all bs (lenN bs)) by lia.
  assert (Hr : broker_reply 2 bs = connack_for fl).
  { unfold broker_reply, bs. rewrite (varint_roundtrip _ _ (connect_head fl ++ rest) Hv).
    change (16 / 16) with 1. cbn [N.eqb Pos.eqb andb orb]. cbn [connect_head app dropN]. reflexivity. }
  rewrite Hr. cbn [app]. destruct (length bs); reflexivity.
Qed.

(* ---------- I/O on a healthy transport ---------- *)
(* the part of the world the I/O primitives depend on, besides the ghost fields and the log *)
Definition env_eq (a b : world) : Prop :=
  w_sess b = w_sess a /\ w_script b = w_script a /\ w_inq b = w_inq a /\ w_txbuf b = w_txbuf a /\
  w_broker b = w_broker a /\ w_now b = w_now a /\ w_last_arrival b = w_last_arrival a.

Definition BIG : N := 1000000000.

Lemma next_ev_healthy : forall w, w_script w = [] -> next_ev w = ((0, BIG), []).
Proof. intros w H. unfold next_ev. now rewrite H. Qed.

(* a whole CONNECT accepted in one write, answered at once by the conformant broker *)
Lemma io_write_connect : forall w fl rl rest,
  w_script w = [] -> w_broker w = 2 -> w_txbuf w = [] ->
  varint_write (lenN (connect_head fl ++ rest)) = Some rl ->
  let bs := 16 :: rl ++ connect_head fl ++ rest in
  lenN bs <= BIG ->
  exists w1, io_write bs w = (w1, WOk (lenN bs)) /\
    w_sess w1 = w_sess w /\ w_script w1 = [] /\ w_txbuf w1 = [] /\ w_broker w1 = 2 /\ w_now w1 = w_now w /\
    w_inq w1 = w_inq w ++ [(N.max (w_now w) (w_last_arrival w), connack_for fl)] /\
    w_last_arrival w1 = N.max (w_now w) (w_last_arrival w).
Proof.
  intros w fl rl rest Hs Hb Ht Hv bs Hl. unfold io_write.
  assert (Hne : lenN bs <> 0) by (unfold bs; rewrite lenN_cons; lia).
  destruct (N.eqb_spec (lenN bs) 0) as [E|_]; [contradiction|].
  rewrite (next_ev_healthy w Hs). cbn [N.eqb]. cbv zeta.
  replace (N.min (N.max BIG 1) (lenN bs)) with (lenN bs) by (unfold BIG in *; lia).
  rewrite (takeN_all bs (lenN bs)) by lia.
  eexists. split; [reflexivity|].
  unfold broker_feed. cbn [w_broker upd_wire upd_log upd_script]. rewrite Hb. change (2 =? 0) with false. cbv iota.
  cbn [w_txbuf upd_wire upd_log upd_script]. rewrite Ht. cbn [app].
  pose proof (broker_split_connect fl rl rest Hv) as Hsp. cbv zeta in Hsp. fold bs in Hsp. rewrite Hsp.
  destruct (connack_for fl) as [|c0 ck] eqn:Eck; [discriminate Eck|].
  cbn [w_sess w_script w_txbuf w_broker w_now w_inq w_last_arrival upd_inq upd_txbuf upd_wire upd_log upd_script].
  repeat split; try reflexivity; assumption.
Qed.

Lemma io_flush_healthy : forall w, w_script w = [] ->
  exists w1, io_flush w = (w1, FlOk) /\ w_sess w1 = w_sess w /\ w_script w1 = [] /\ w_inq w1 = w_inq w /\
             w_now w1 = w_now w /\ w_last_arrival w1 = w_last_arrival w.
Proof.
  intros w Hs. unfold io_flush. rewrite (next_ev_healthy w Hs). cbn [N.eqb]. eexists. split; [reflexivity|].
  cbn [w_sess w_script w_inq w_now w_last_arrival upd_log upd_script]. repeat split; reflexivity.
Qed.

(* one read from a queue holding one chunk that has arrived *)
Lemma io_read_healthy_dl : forall dl win w t d,
  win <> 0 -> w_script w = [] -> w_inq w = [(t, d)] -> t <= w_now w -> d <> [] -> lenN d <= BIG ->
  let n := N.min win (lenN d) in
  exists w1, io_read win dl w = (w1, RData (takeN n d)) /\
    w_sess w1 = w_sess w /\ w_script w1 = [] /\ w_now w1 = w_now w /\
    w_inq w1 = match dropN n d with [] => [] | r => [(w_now w, r)] end.
Proof.
  intros dl win w t d Hw Hs Hi Ht Hd Hl n. unfold io_read.
  destruct (N.eqb_spec win 0) as [E|_]; [contradiction|].
  rewrite (next_ev_healthy w Hs). cbn [N.eqb]. rewrite Hi. cbn [avail_split].
  destruct (N.leb_spec t (w_now w)) as [_|L]; [|lia]. rewrite app_nil_r.
  destruct d as [|x d']; [contradiction|].
  unfold deliver. cbn [w_now w_inq upd_script]. rewrite Hi. cbn [avail_split].
  destruct (N.leb_spec t (w_now w)) as [_|L]; [|lia]. rewrite app_nil_r.
  replace (N.min (N.max BIG 1) (N.min win (lenN (x :: d')))) with n by (unfold n, BIG in *; lia).
  eexists. split; [reflexivity|].
  cbn [w_sess w_script w_now w_inq upd_log upd_inq upd_script]. repeat split.
  destruct (dropN n (x :: d')); reflexivity.
Qed.

Lemma io_read_healthy : forall win w t d,
  win <> 0 -> w_script w = [] -> w_inq w = [(t, d)] -> t <= w_now w -> d <> [] -> lenN d <= BIG ->
  let n := N.min win (lenN d) in
  exists w1, io_read win None w = (w1, RData (takeN n d)) /\
    w_sess w1 = w_sess w /\ w_script w1 = [] /\ w_now w1 = w_now w /\
    w_inq w1 = match dropN n d with [] => [] | r => [(w_now w, r)] end.
Proof. exact (io_read_healthy_dl None). Qed.

(* a read that finds its bytes waiting does not wait: the clock, the wait counter and the select's timer are left alone *)
Lemma io_read_healthy_waits : forall dl win w t d,
  win <> 0 -> w_script w = [] -> w_inq w = [(t, d)] -> t <= w_now w -> d <> [] -> lenN d <= BIG ->
  w_waits (fst (io_read win dl w)) = w_waits w.
Proof.
  intros dl win w t d Hw Hs Hi Ht Hd Hl. unfold io_read.
  destruct (N.eqb_spec win 0) as [E|_]; [contradiction|].
  rewrite (next_ev_healthy w Hs). cbn [N.eqb]. rewrite Hi. cbn [avail_split].
  destruct (N.leb_spec t (w_now w)) as [_|L]; [|lia]. rewrite app_nil_r.
  destruct d as [|x d']; [contradiction|].
  unfold deliver. cbn [w_now w_inq upd_script]. rewrite Hi. cbn [avail_split].
  destruct (N.leb_spec t (w_now w)) as [_|L]; [|lia]. reflexivity.
Qed.

Lemma timer_fired_healthy : forall y dl w t d,
  w_script w = [] -> w_inq w = [(t, d)] -> t <= w_now w -> d <> [] -> timer_fired y dl w = false.
Proof.
  intros y dl w t d Hs Hi Ht Hd. unfold timer_fired. rewrite (next_ev_healthy w Hs). cbn [fst N.eqb negb andb orb].
  rewrite Hi. cbn [avail_split]. destruct (N.leb_spec t (w_now w)) as [_|L]; [|lia]. rewrite app_nil_r. cbn [fst].
  destruct d as [|x d']; [contradiction|]. destruct dl as [dd|]; [|apply andb_false_r].
  rewrite !andb_false_r. reflexivity.
Qed.

(* ---------- the packet reader pulls the CONNACK in ---------- *)
Lemma fill_go_step_dl : forall dl y f w r' win t d,
  packet_available (s_reader (w_sess w)) = false -> receive_buffer (s_reader (w_sess w)) = (r', Some win) -> win <> 0 ->
  w_script w = [] -> w_inq w = [(t, d)] -> t <= w_now w -> d <> [] -> lenN d <= BIG ->
  let n := N.min win (lenN d) in
  exists w2, fill_go (S f) y dl w = fill_go f y dl w2 /\
    w_sess w2 = set_reader (w_sess w) (commit r' (takeN n d)) /\
    w_script w2 = [] /\ w_now w2 = w_now w /\
    w_inq w2 = match dropN n d with [] => [] | r => [(w_now w, r)] end.
Proof.
  intros dl y f w r' win t d Ha Hr Hw Hs Hi Ht Hd Hl n. cbn [fill_go]. rewrite Ha, Hr.
  destruct (N.eqb_spec win 0) as [E|_]; [contradiction|].
  set (w0 := upd_sess w (set_reader (w_sess w) r')).
  rewrite (timer_fired_healthy y dl w0 t d Hs Hi Ht Hd).
  pose proof (io_read_healthy_waits dl win w0 t d Hw Hs Hi Ht Hd Hl) as Hwt.
  destruct (io_read_healthy_dl dl win w0 t d Hw Hs Hi Ht Hd Hl) as [w1 [Er [S1 [S2 [S3 S4]]]]]. fold n in Er, S4.
  rewrite Er in Hwt. cbn [fst] in Hwt.
  rewrite Er, Hwt, N.eqb_refl. cbn [negb]. rewrite orb_false_r.
  assert (Hn : takeN n d <> []).
  { destruct d as [|x d']; [contradiction|]. unfold n. rewrite lenN_cons.
    assert (1 <= N.min win (1 + lenN d')) by lia. intros E. apply (f_equal lenN) in E. rewrite lenN_takeN, lenN_cons, lenN_nil in E. lia. }
  destruct (takeN n d) as [|y0 ys] eqn:Et; [contradiction|].
  eexists. split; [reflexivity|]. cbn [w_sess w_script w_now w_inq upd_sess]. rewrite S1. cbn [w0 w_sess upd_sess set_reader s_reader].
  repeat split; try assumption; try reflexivity.
Qed.

Lemma fill_step_dl : forall dl f w r' win t d,
  packet_available (s_reader (w_sess w)) = false -> receive_buffer (s_reader (w_sess w)) = (r', Some win) -> win <> 0 ->
  w_script w = [] -> w_inq w = [(t, d)] -> t <= w_now w -> d <> [] -> lenN d <= BIG ->
  let n := N.min win (lenN d) in
  exists w2, fill_packet_reader (S f) dl w = fill_packet_reader f dl w2 /\
    w_sess w2 = set_reader (w_sess w) (commit r' (takeN n d)) /\
    w_script w2 = [] /\ w_now w2 = w_now w /\
    w_inq w2 = match dropN n d with [] => [] | r => [(w_now w, r)] end.
Proof. intros dl. exact (fill_go_step_dl dl false). Qed.

Lemma fill_step : forall f w r' win t d,
  packet_available (s_reader (w_sess w)) = false -> receive_buffer (s_reader (w_sess w)) = (r', Some win) -> win <> 0 ->
  w_script w = [] -> w_inq w = [(t, d)] -> t <= w_now w -> d <> [] -> lenN d <= BIG ->
  let n := N.min win (lenN d) in
  exists w2, fill_packet_reader (S f) None w = fill_packet_reader f None w2 /\
    w_sess w2 = set_reader (w_sess w) (commit r' (takeN n d)) /\
    w_script w2 = [] /\ w_now w2 = w_now w /\
    w_inq w2 = match dropN n d with [] => [] | r => [(w_now w, r)] end.
Proof. exact (fill_step_dl None). Qed.

Lemma connack_decodes : forall b, from_buffer [32; 3; (if b : bool then 0 else 1); 0; 0] = Some (RConnAck (negb b) 0 []).
Proof. intros []; vm_compute; reflexivity. Qed.

(* the reader on the first bytes of a packet *)
Lemma rb_header : forall r, rplen r = None -> read_bytes r <= 1 -> read_bytes r + 1 <= rcap r ->
  receive_buffer r = (r, Some 1).
Proof.
  intros r Hp Hb Hc. unfold receive_buffer. rewrite Hp. unfold probe.
  destruct (N.leb_spec (read_bytes r) 1) as [_|L]; [|lia]. rewrite Hp.
  destruct (N.leb_spec (read_bytes r + 1) (rcap r)) as [_|L]; [|lia]. f_equal. f_equal. lia.
Qed.

Lemma rb_second : forall r a, rplen r = None -> rdata r = [a; 3] -> 5 <= rcap r ->
  receive_buffer r = ({| rcap := rcap r; rdata := rdata r; rplen := Some 5 |}, Some 3).
Proof.
  intros r a Hp Hd Hc. unfold receive_buffer. rewrite Hp. unfold probe.
  assert (Hb : read_bytes r = 2) by (unfold read_bytes; rewrite Hd; reflexivity). rewrite Hb.
  destruct (N.leb_spec 2 1) as [L|_]; [lia|]. rewrite Hd.
  change (probe_len (takeN 4 (dropN 1 [a; 3]))) with (Some 5).
  destruct (N.leb_spec 5 2) as [L|_]; [lia|]. cbn [andb]. cbv iota beta. cbn [rplen rcap].
  destruct (N.leb_spec 5 (rcap r)) as [_|L]; [|lia]. reflexivity.
Qed.

Lemma fill_connack_full : forall f w t fl,
  rdata (s_reader (w_sess w)) = [] -> rplen (s_reader (w_sess w)) = None -> 5 <= rcap (s_reader (w_sess w)) ->
  w_script w = [] -> w_inq w = [(t, connack_for fl)] -> t <= w_now w ->
  exists w4, fill_packet_reader (S (S (S (S f)))) None w = (w4, FillOk) /\
    w_sess w4 = set_reader (w_sess w) {| rcap := rcap (s_reader (w_sess w)); rdata := connack_for fl; rplen := Some 5 |} /\
    w_now w4 = w_now w /\ w_inq w4 = [] /\ w_script w4 = [].
Proof.
  intros f w t fl Hd Hp Hc Hs Hi Ht.
  set (sp := if N.testbit fl 1 then 0 else 1). assert (Eck : connack_for fl = [32; 3; sp; 0; 0]) by reflexivity. rewrite Eck in *.
  (* first byte *)
  assert (A1 : packet_available (s_reader (w_sess w)) = false) by (unfold packet_available; now rewrite Hp).
  assert (R1 : receive_buffer (s_reader (w_sess w)) = (s_reader (w_sess w), Some 1)).
  { apply rb_header; [exact Hp|unfold read_bytes; rewrite Hd; cbn; lia|unfold read_bytes; rewrite Hd; cbn [lenN lenN_acc]; lia]. }
  destruct (fill_step (S (S (S f))) w _ 1 t [32; 3; sp; 0; 0] A1 R1 ltac:(lia) Hs Hi Ht ltac:(discriminate) ltac:(unfold BIG; cbn; lia))
    as [w1 [E1 [S1 [C1 [N1 I1]]]]]. rewrite E1. clear E1.
  change (N.min 1 (lenN [32; 3; sp; 0; 0])) with 1 in S1, I1.
  change (takeN 1 [32; 3; sp; 0; 0]) with [32] in S1. change (dropN 1 [32; 3; sp; 0; 0]) with [3; sp; 0; 0] in I1.
  (* second byte *)
  set (r1 := commit (s_reader (w_sess w)) [32]) in *.
  assert (Hr1 : s_reader (w_sess w1) = r1) by (rewrite S1; reflexivity).
  assert (P1 : rplen r1 = None) by exact Hp.
  assert (D1 : rdata r1 = [32]) by (unfold r1, commit; cbn [rdata]; now rewrite Hd).
  assert (A2 : packet_available (s_reader (w_sess w1)) = false) by (rewrite Hr1; unfold packet_available; now rewrite P1).
  assert (R2 : receive_buffer (s_reader (w_sess w1)) = (r1, Some 1)).
  { rewrite Hr1. apply rb_header; [exact P1|unfold read_bytes; rewrite D1; cbn; lia|unfold read_bytes; rewrite D1; change (rcap r1) with (rcap (s_reader (w_sess w))); cbn [lenN lenN_acc]; lia]. }
  destruct (fill_step (S (S f)) w1 r1 1 (w_now w) [3; sp; 0; 0] A2 R2 ltac:(lia) C1 I1 ltac:(lia) ltac:(discriminate) ltac:(unfold BIG; cbn; lia))
    as [w2 [E2 [S2 [C2 [N2 I2]]]]]. rewrite E2. clear E2.
  change (N.min 1 (lenN [3; sp; 0; 0])) with 1 in S2, I2.
  change (takeN 1 [3; sp; 0; 0]) with [3] in S2. change (dropN 1 [3; sp; 0; 0]) with [sp; 0; 0] in I2.
  (* the length is known after two bytes: three more *)
  set (r2 := commit r1 [3]) in *.
  assert (Hr2 : s_reader (w_sess w2) = r2) by (rewrite S2; reflexivity).
  assert (P2 : rplen r2 = None) by exact Hp.
  assert (D2 : rdata r2 = [32; 3]) by (unfold r2, commit; cbn [rdata]; now rewrite D1).
  assert (A3 : packet_available (s_reader (w_sess w2)) = false) by (rewrite Hr2; unfold packet_available; now rewrite P2).
  assert (R3 : receive_buffer (s_reader (w_sess w2)) = ({| rcap := rcap r2; rdata := rdata r2; rplen := Some 5 |}, Some 3)).
  { rewrite Hr2. apply (rb_second r2 32 P2 D2). exact Hc. }
  rewrite N1 in I2.
  destruct (fill_step (S f) w2 _ 3 (w_now w) [sp; 0; 0] A3 R3 ltac:(lia) C2 I2 ltac:(lia) ltac:(discriminate) ltac:(unfold BIG; cbn; lia))
    as [w3 [E3 [S3 [C3 [N3 I3]]]]]. rewrite E3. clear E3.
  change (N.min 3 (lenN [sp; 0; 0])) with 3 in S3, I3.
  change (takeN 3 [sp; 0; 0]) with [sp; 0; 0] in S3. change (dropN 3 [sp; 0; 0]) with (@nil N) in I3.
  (* complete *)
  unfold fill_packet_reader. cbn [fill_go]. rewrite S3. cbn [set_reader s_reader]. unfold packet_available, commit. cbn [rplen rdata read_bytes]. rewrite D2.
  change (5 <=? lenN ([32; 3] ++ [sp; 0; 0])) with true. cbv iota. eexists. split; [reflexivity|]. split; [|split; [congruence|split; [exact I3|exact C3]]].
  rewrite S3, S2, S1. unfold set_reader, commit. cbn [s_cfg s_client_id s_reader s_ob s_pid s_gen s_sp s_srv s_rt rcap rdata rplen].
  rewrite D2. reflexivity.
Qed.


Lemma fill_connack : forall f w t fl,
  rdata (s_reader (w_sess w)) = [] -> rplen (s_reader (w_sess w)) = None -> 5 <= rcap (s_reader (w_sess w)) ->
  w_script w = [] -> w_inq w = [(t, connack_for fl)] -> t <= w_now w ->
  exists w4, fill_packet_reader (S (S (S (S f)))) None w = (w4, FillOk) /\
    w_sess w4 = set_reader (w_sess w) {| rcap := rcap (s_reader (w_sess w)); rdata := connack_for fl; rplen := Some 5 |} /\
    w_now w4 = w_now w.
Proof.
  intros f w t fl Hd Hp Hc Hs Hi Ht. destruct (fill_connack_full f w t fl Hd Hp Hc Hs Hi Ht) as [w4 [A [B [C _]]]].
  exists w4. repeat split; assumption.
Qed.

(* ---------- connect() succeeds ---------- *)
Lemma FUEL_big : exists f, FUEL = S (S (S (S (S f)))).
Proof. unfold FUEL. eexists. reflexivity. Qed.

Lemma connect_flags_clean : forall r, N.testbit (connect_flags r) 1 = cq_clean r.
Proof.
  intros [ka ps cid au wl cl]. unfold connect_flags. cbn [cq_clean cq_will cq_auth].
  destruct cl, au, wl as [[? ? [] [] ?]|]; vm_compute; reflexivity.
Qed.

Theorem connect_succeeds : forall w off bs,
  w_script w = [] -> w_broker w = 2 -> w_inq w = [] -> w_txbuf w = [] -> w_last_arrival w <= w_now w ->
  5 <= rcap (s_reader (w_sess w)) ->
  let s2 := connect_scratch (w_sess w) in
  enc_connect (ob_cap (s_ob s2) - ob_used (s_ob s2)) (connect_request s2) = SOk off bs -> lenN bs <= BIG ->
  exists w', op_connect FUEL w = (w', ODone (if s_sp (w_sess w) then 1 else 0)).
Proof.
  intros w off bs Hs Hb Hi Ht Hla Hc s2 He Hl.
  destruct FUEL_big as [f Hf]. rewrite Hf.
  unfold op_connect. fold (connect_preamble (w_sess w)).
  change (set_ob (connect_preamble (w_sess w)) (compact (s_ob (connect_preamble (w_sess w))))) with s2.
  change (compact (s_ob (connect_preamble (w_sess w)))) with (s_ob s2). rewrite He.
  destruct (connect_layout _ _ _ _ He) as [rl [rest [Ebs Hv]]].
  set (w2 := upd_sess w s2).
  (* the CONNECT goes out in one write and is answered *)
  destruct (io_write_connect w2 (connect_flags (connect_request s2)) rl rest Hs Hb Ht Hv) as [w3 [Ew [S3 [C3 [T3 [B3 [N3 [I3 L3]]]]]]]]; [rewrite <- Ebs; exact Hl|].
  rewrite <- Ebs in Ew. cbn [w2 w_now w_inq w_last_arrival upd_sess] in N3, I3, L3. rewrite Hi in I3. cbn [app] in I3.
  replace (N.max (w_now w) (w_last_arrival w)) with (w_now w) in I3, L3 by lia.
  unfold direct_send. cbn [write_all].
  assert (Hne : bs <> []) by (rewrite Ebs; discriminate). destruct bs as [|b0 bt] eqn:Eb; [contradiction|]. rewrite <- Eb in *.
  rewrite Ew. destruct (N.eqb_spec (lenN bs) 0) as [E0|_]; [rewrite Eb, lenN_cons in E0; lia|].
  rewrite (dropN_all bs (lenN bs)) by lia. cbn [write_all bindu].
  destruct (io_flush_healthy w3 C3) as [w4 [Ef [S4 [C4 [I4 [N4 L4]]]]]]. rewrite Ef. cbn [bindu].
  set (w5 := upd_sess w4 (set_rt (w_sess w4) (rt_with_timers (s_rt (w_sess w4)) None None))).
  (* the reader pulls the CONNACK in *)
  assert (R5 : s_reader (w_sess w5) = reader_reset (s_reader (w_sess w))).
  { cbn [w5 w_sess upd_sess set_rt s_reader]. rewrite S4, S3. reflexivity. }
  destruct (fill_connack (S f) w5 (w_now w) (connect_flags (connect_request s2))) as [w6 [Ef6 [S6 N6]]].
  { now rewrite R5. } { now rewrite R5. } { rewrite R5. exact Hc. }
  { cbn [w5 w_script upd_sess]. exact C4. }
  { cbn [w5 w_inq upd_sess]. rewrite I4. exact I3. }
  { cbn [w5 w_now upd_sess]. rewrite N4, N3. lia. }
  rewrite Ef6.
  (* decode and accept *)
  unfold take_packet. rewrite S6. cbn [set_reader s_reader rplen rdata].
  change (takeN 5 (connack_for (connect_flags (connect_request s2)))) with (connack_for (connect_flags (connect_request s2))).
  assert (Hdec : from_buffer (connack_for (connect_flags (connect_request s2)))
                 = Some (RConnAck (negb (N.testbit (connect_flags (connect_request s2)) 1)) 0 []))
    by exact (connack_decodes (N.testbit (connect_flags (connect_request s2)) 1)).
  rewrite Hdec.
  match goal with |- context [connack_process ?s ?p ?n] =>
    pose proof (plain_connack_accepted s (negb (N.testbit (connect_flags (connect_request s2)) 1)) n) as Hacc;
    destruct (connack_process s p n) as [s7 cr] eqn:Ec end.
  cbn [snd] in Hacc. subst cr. rewrite connect_flags_clean.
  change (cq_clean (connect_request s2)) with (negb (s_sp (w_sess w))). rewrite Bool.negb_involutive.
  eexists. reflexivity.
Qed.

(* the encoded CONNECT is never longer than the healthy transport takes in one call *)
Lemma connect_len_small : forall cap r off bs, enc_connect cap r = SOk off bs -> lenN bs <= BIG.
Proof.
  intros cap r off bs H. destruct (connect_layout _ _ _ _ H) as [rl [rest [Eb Hv]]].
  pose proof (varint_write_len_eq _ _ Hv) as Hl. unfold varint_write in Hv.
  destruct (N.ltb_spec VARINT_MAX (lenN (connect_head (connect_flags r) ++ rest))) as [|Hm]; [discriminate|].
  rewrite Eb, lenN_cons, lenN_app, Hl. unfold varint_len, BIG, VARINT_MAX in *.
  repeat match goal with |- context [if ?c then _ else _] => destruct c end; lia.
Qed.

(* C12, positive half, at the level of a run: a connect action on a behaving transport answered by a conformant
   broker re-establishes the session from EVERY session state in which the CONNECT fits behind the retained
   packets — whatever happened before (failed writes, half-received packets, expired timers, queued control
   packets, a disconnect that could not be sent). *)
Theorem connect_action_succeeds : forall w,
  w_script w = [] -> w_broker w = 2 -> 5 <= rcap (s_reader (w_sess w)) ->
  let s2 := connect_scratch (w_sess w) in
  let free := ob_cap (s_ob s2) - ob_used (s_ob s2) in
  let cs := connect_chunks (connect_request s2) in
  chunks_ok cs = true -> chunks_len cs <= VARINT_MAX -> 5 + chunks_len cs <= free ->
  let w' := run_action (AConnect []) w in
  w_conn w' = true /\ w_live w' = true /\ w_event w' = (if s_sp (w_sess w) then 1 else 0).
Proof.
  intros w Hs Hb Hc s2 free cs Hok Hv Hroom w'.
  destruct (connect_encodes_iff_room (w_sess w) Hok Hv) as [Henc _].
  destruct (Henc Hroom) as [off [bs He]].
  set (w0 := upd_poison (upd_wire (upd_txbuf (upd_inq (upd_live w false false 0) [] (w_now w)) []) []) false).
  destruct (connect_succeeds w0 off bs) as [w2 E2]; try reflexivity; try assumption.
  { exact (connect_len_small _ _ _ _ He). }
  unfold w', run_action. cbn [fold_left]. fold w0. rewrite E2. cbn. repeat split.
Qed.

(* ---------- the hypotheses are met: a fresh client, and a client whose QoS 1 publish was cut off after four bytes and is
   retained for republication ---------- *)
Definition ex_cfg : config :=
  {| cf_rx := 64; cf_tx := 128; cf_client_id := [99]; cf_keepalive_s := 30; cf_expiry := 0;
     cf_downgrade := false; cf_will := None; cf_auth := None |}.
Definition ex_pub : pub_req :=
  {| pr_topic := [116]; pr_props := PSlice []; pr_qos := Q1; pr_payload := [1; 2; 3]; pr_retain := false |}.
Definition ex_fresh : world := run_case {| c_cfg := ex_cfg; c_prog := [ASetBroker 2]; c_script := [] |}.
Definition ex_broken : world :=
  run_case {| c_cfg := ex_cfg;
              c_prog := [ASetBroker 2; AConnect []; APublish ex_pub; ADrive; AHandleDisconnect; AHeal];
              c_script := [(0, 1000); (0, 1000); (0, 1000); (0, 1000); (0, 1000); (0, 4); (1, 0)] |}.

Definition connect_hyps (w : world) : bool :=
  let s2 := connect_scratch (w_sess w) in
  let cs := connect_chunks (connect_request s2) in
  match w_script w with [] => true | _ => false end && (w_broker w =? 2) && (5 <=? rcap (s_reader (w_sess w))) &&
  chunks_ok cs && (chunks_len cs <=? VARINT_MAX) && (5 + chunks_len cs <=? ob_cap (s_ob s2) - ob_used (s_ob s2)).

Lemma connect_hyps_sound : forall w, connect_hyps w = true ->
  let w' := run_action (AConnect []) w in
  w_conn w' = true /\ w_live w' = true /\ w_event w' = (if s_sp (w_sess w) then 1 else 0).
Proof.
  intros w H. unfold connect_hyps in H. repeat (apply Bool.andb_true_iff in H; destruct H as [H ?]).
  apply connect_action_succeeds; try (apply N.leb_le; assumption); try (apply N.eqb_eq; assumption); try assumption.
  destruct (w_script w); [reflexivity|discriminate].
Qed.

Example connect_hyps_fresh : connect_hyps ex_fresh = true.
Proof. vm_compute. reflexivity. Qed.
Example connect_hyps_broken :
  connect_hyps ex_broken = true /\ halted ex_broken = false /\ s_sp (w_sess ex_broken) = true /\
  length (ob_ret (s_ob (w_sess ex_broken))) = 1%nat /\ w_live ex_broken = false.
Proof. vm_compute. repeat split; reflexivity. Qed.
