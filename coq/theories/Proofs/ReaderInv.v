(* ReaderInv.v — the packet reader never holds more than the packet it is assembling: while the length is unknown
   it asks for one byte at a time, so when the probe learns the length the buffer ends exactly with the byte that
   terminates the remaining-length field; afterwards the window is what is missing.  Hence a completed packet is
   exactly the first `pl` bytes it was fed — the basis of "inbound framing does not depend on read fragmentation"
   at the level of the machine (Framing.v). *)
From Coq Require Import List NArith Lia Bool.
From Coq Require Import ZifyBool ZifyN ZifyNat.
From Minimq Require Import Bytes Varint Utf8 Props Ser De Reader Util Chunking.
Import ListNotations.
Local Open Scope N_scope.

Definition cont (b : N) : Prop := 128 <= b.

(* every byte of the length field read so far, except possibly the last one, has its continuation bit set *)
Definition HdrOk (d : bytes) : Prop := Forall cont (removelast (dropN 1 d)).

Definition ROK (r : reader) : Prop :=
  match rplen r with
  | Some pl => read_bytes r <= pl /\ probe_len (takeN 4 (dropN 1 (rdata r))) = Some pl
  | None => HdrOk (rdata r)
  end.

Lemma ROK_reset : forall r, ROK (reader_reset r).
Proof. intros r. unfold ROK, reader_reset, HdrOk. cbn. constructor. Qed.

(* the probe over a list whose bytes all continue finds nothing; with a terminating last byte it finds the length *)
Lemma probe_go_cont : forall l idx cnt acc, Forall cont l -> probe_go idx cnt acc l = None.
Proof.
  induction l as [|b t IH]; intros idx cnt acc H; destruct cnt; cbn [probe_go]; try reflexivity.
  inversion H as [|? ? Hb Ht]; subst. unfold cont in Hb.
  destruct (N.ltb_spec b 128); [lia|]. now apply IH.
Qed.

Lemma probe_go_last : forall l idx cnt acc b p, Forall cont l ->
  probe_go idx cnt acc (l ++ [b]) = Some p -> 1 + (1 + idx) + lenN l <= p.
Proof.
  induction l as [|x t IH]; intros idx cnt acc b p H E; destruct cnt; cbn [probe_go app] in E; try discriminate.
  - destruct (b <? 128); [|destruct cnt; discriminate]. inversion E; subst. rewrite lenN_nil. lia.
  - inversion H as [|? ? Hx Ht]; subst. unfold cont in Hx. destruct (N.ltb_spec x 128); [lia|].
    specialize (IH _ _ _ _ _ Ht E). rewrite lenN_cons. lia.
Qed.

Lemma removelast_app1 : forall {A} (l : list A) x, removelast (l ++ [x]) = l.
Proof. intros. rewrite removelast_app by discriminate. cbn. apply app_nil_r. Qed.

Lemma probe_go_none_last : forall l idx cnt acc b, Forall cont l -> (length (l ++ [b]) <= cnt)%nat ->
  probe_go idx cnt acc (l ++ [b]) = None -> cont b.
Proof.
  induction l as [|x t IH]; intros idx cnt acc b H Hl E; destruct cnt; cbn [length app] in Hl; try lia; cbn [probe_go app] in E.
  - unfold cont. destruct (N.ltb_spec b 128); [discriminate|assumption].
  - inversion H as [|? ? Hx Ht]; subst. unfold cont in Hx. destruct (N.ltb_spec x 128); [lia|].
    eapply IH; [exact Ht| |exact E]. cbn [length app]. lia.
Qed.

(* the probe only looks at the bytes up to the first one without continuation bit: more input does not change it *)
Lemma probe_go_ext : forall l m idx cnt acc p, probe_go idx cnt acc l = Some p -> probe_go idx cnt acc (l ++ m) = Some p.
Proof.
  induction l as [|b t IH]; intros m idx cnt acc p H; destruct cnt; cbn [probe_go app] in *; try discriminate.
  destruct (b <? 128); [exact H|]. now apply IH.
Qed.

Lemma takeN4_ext : forall (a d : bytes), exists x, takeN 4 (dropN 1 (a ++ d)) = takeN 4 (dropN 1 a) ++ x.
Proof.
  intros a d. destruct a as [|h t].
  - cbn [app]. rewrite (dropN_all []) by (rewrite lenN_nil; lia). rewrite (takeN_all []) by (rewrite lenN_nil; lia). eexists. reflexivity.
  - rewrite dropN_app_le by (rewrite lenN_cons; lia).
    destruct (N.le_gt_cases (lenN (dropN 1 (h :: t))) 4) as [L|L].
    + rewrite takeN_app_ge by exact L. rewrite (takeN_all (dropN 1 (h :: t))) by exact L. eexists. reflexivity.
    + rewrite takeN_app_le by lia. exists []. now rewrite app_nil_r.
Qed.

Lemma probe_len_ext : forall a d p, probe_len (takeN 4 (dropN 1 a)) = Some p -> probe_len (takeN 4 (dropN 1 (a ++ d))) = Some p.
Proof. intros a d p H. destruct (takeN4_ext a d) as [x E]. rewrite E. unfold probe_len in *. now apply probe_go_ext. Qed.

(* invariant of the fill loop at its head: ROK, and in the header phase at most five bytes *)
Definition RInv (r : reader) : Prop := ROK r /\ (rplen r = None -> read_bytes r <= 5).

Lemma RInv_reset : forall r, RInv (reader_reset r).
Proof. intros r. split; [apply ROK_reset|]. intros _. unfold read_bytes, reader_reset. cbn. lia. Qed.

Lemma dropN1_len : forall (d : bytes), lenN (dropN 1 d) = lenN d - 1.
Proof. intros. apply lenN_dropN. Qed.

Lemma receive_buffer_inv : forall r r' w, RInv r -> receive_buffer r = (r', Some w) ->
  rdata r' = rdata r /\ rcap r' = rcap r /\
  match rplen r' with
  | Some pl => read_bytes r' <= pl /\ w = pl - read_bytes r' /\ pl <= rcap r' /\ probe_len (takeN 4 (dropN 1 (rdata r'))) = Some pl
  | None => w = 1 /\ Forall cont (dropN 1 (rdata r')) /\ read_bytes r' <= 4
  end.
Proof.
  intros r r' w [Hok H5] E. unfold receive_buffer in E. unfold ROK in Hok.
  destruct (rplen r) as [pl|] eqn:Ep.
  - (* length known *)
    rewrite Ep in E. destruct (N.leb_spec pl (rcap r)) as [L|L]; [|discriminate]. inversion E; subst r' w.
    split; [reflexivity|]. split; [reflexivity|]. rewrite Ep. destruct Hok as [Hok1 Hok2]. repeat split; try assumption.
  - specialize (H5 eq_refl). unfold probe in E.
    destruct (N.leb_spec (read_bytes r) 1) as [L1|L1].
    + (* zero or one byte: no probe yet *)
      rewrite Ep in E. destruct (N.leb_spec (read_bytes r + 1) (rcap r)) as [L|L]; [|discriminate]. inversion E; subst r' w.
      split; [reflexivity|]. split; [reflexivity|]. rewrite Ep. split; [lia|]. split; [|lia].
      assert (Hd : dropN 1 (rdata r) = []) by (apply lenN_zero_nil; rewrite dropN1_len; unfold read_bytes in L1; lia).
      rewrite Hd. constructor.
    + set (l := dropN 1 (rdata r)) in *.
      assert (Hl : lenN l = read_bytes r - 1) by (unfold l; apply dropN1_len).
      assert (Ht4 : takeN 4 l = l) by (apply takeN_all; lia).
      rewrite Ht4 in E. unfold probe_len in E.
      assert (Hne : l <> []) by (intros Hn; rewrite Hn, lenN_nil in Hl; lia).
      destruct (exists_last Hne) as [t [b Elb]].
      assert (Hct : Forall cont t).
      { unfold HdrOk in Hok. fold l in Hok. rewrite Elb, removelast_app1 in Hok. exact Hok. }
      assert (Hlt : lenN t = read_bytes r - 2) by (rewrite Elb, lenN_app, lenN_cons, lenN_nil in Hl; lia).
      destruct (probe_go 0 4 0 l) as [p|] eqn:Epg.
      * (* the length has just been learnt: the buffer ends with the terminating byte *)
        rewrite andb_false_r in E. cbn [rplen rcap read_bytes rdata] in E.
        destruct (N.leb_spec p (rcap r)) as [L|L]; [|discriminate]. inversion E; subst r' w.
        cbn [rdata rcap rplen read_bytes]. split; [reflexivity|]. split; [reflexivity|].
        rewrite Elb in Epg. pose proof (probe_go_last _ _ _ _ _ _ Hct Epg) as Hp.
        unfold read_bytes in *. cbn [rdata]. repeat split; try lia. fold l. rewrite Ht4. unfold probe_len. rewrite Elb. exact Epg.
      * destruct (N.leb_spec 5 (read_bytes r)) as [L5|L5]; cbn [andb] in E; [discriminate|].
        cbn [rplen rcap] in E.
        match type of E with (if ?c then _ else _) = _ => destruct c eqn:Ec end; [|discriminate]. inversion E; subst r' w.
        cbn [rdata rcap rplen read_bytes]. split; [reflexivity|]. split; [reflexivity|].
        unfold read_bytes in *. cbn [rdata]. split; [lia|]. split; [|lia]. fold l. rewrite Elb.
        apply Forall_app. split; [exact Hct|]. constructor; [|constructor].
        rewrite Elb in Epg. eapply probe_go_none_last; [exact Hct| |exact Epg].
        rewrite <- Elb. rewrite lenN_length in Hl. lia.
Qed.

Lemma commit_inv : forall r' w d, rdata r' = rdata r' ->
  match rplen r' with
  | Some pl => read_bytes r' <= pl /\ w = pl - read_bytes r' /\ pl <= rcap r' /\ probe_len (takeN 4 (dropN 1 (rdata r'))) = Some pl
  | None => w = 1 /\ Forall cont (dropN 1 (rdata r')) /\ read_bytes r' <= 4
  end ->
  lenN d <= w -> RInv (commit r' d).
Proof.
  intros r' w d _ H Hd. unfold RInv, ROK, commit, read_bytes in *. cbn [rplen rdata].
  destruct (rplen r') as [pl|].
  - destruct H as [H1 [H2 [H3 H4]]]. split; [split; [rewrite lenN_app; lia|now apply probe_len_ext]|discriminate].
  - destruct H as [H1 [H2 H3]]. split; [|intros _; rewrite lenN_app; lia].
    unfold HdrOk. subst w.
    destruct d as [|x [|y u]]; [rewrite app_nil_r; clear - H2; induction (dropN 1 (rdata r')) as [|a t IH]; [constructor|];
                               destruct t; [constructor|]; inversion H2; subst; constructor; [assumption|now apply IH]
                              | |rewrite !lenN_cons in Hd; lia].
    destruct (rdata r') as [|h tl] eqn:Er.
    + cbn. constructor.
    + rewrite dropN_app_le by (rewrite lenN_cons; lia). rewrite removelast_app1. exact H2.
Qed.
