(* De.v — ReceivedPacket::from_buffer over the narrow serde deserializer.
   [src/de/deserializer.rs, src/de/received_packet.rs, src/packets.rs] *)
From Minimq Require Import Bytes Varint Utf8 Props Ser.

Inductive rpacket :=
| RConnAck (sp : bool) (rc : N) (props : bytes)
| RPublish (topic : bytes) (pid : option N) (q : qos) (retain dup : bool) (props : bytes) (payload : bytes)
| RPubAck (pid rc : N)
| RPubRec (pid rc : N)
| RPubRel (pid rc : N)
| RPubComp (pid rc : N)
| RSubAck (pid : N) (props : bytes) (codes : bytes)
| RUnsubAck (pid : N) (props : bytes) (codes : bytes)
| RDisconnect (rc : N) (props : option bytes)
| RPingResp.

(* deserialize_seq as used for `Properties`: varint length, then exactly that many bytes *)
Definition de_props (l : bytes) : option (bytes * bytes) :=
  match varint_read l with
  | VOk n rest => take_exact n rest
  | _ => None
  end.

(* Reason { reason: Option<ReasonData { code, properties: Option<Properties> }> }
   option = "bytes remain".  Returns the normalised code and the rest. *)
Definition de_reason (l : bytes) : option (N * bytes) :=
  match l with
  | [] => Some (0, [])
  | c :: t =>
      match t with
      | [] => Some (rc_norm c, [])
      | _ => match de_props t with Some (_, rest) => Some (rc_norm c, rest) | None => None end
      end
  end.

Definition de_ack (mk : N -> N -> rpacket) (l : bytes) : option (rpacket * bytes) :=
  match read_u16 l with
  | None => None
  | Some (pid, t) =>
      match de_reason t with Some (rc, rest) => Some (mk pid rc, rest) | None => None end
  end.

Definition de_suback (mk : N -> bytes -> bytes -> rpacket) (l : bytes) : option (rpacket * bytes) :=
  match read_u16 l with
  | None => None
  | Some (pid, t) =>
      match de_props t with Some (ps, rest) => Some (mk pid ps [], rest) | None => None end
  end.

(* the body after fixed header byte and remaining-length varint *)
Definition de_body (hdr : N) (l : bytes) : option (rpacket * bytes) :=
  let typ := hdr / 16 in
  let flags := hdr mod 16 in
  (* type validity: MessageType::try_from accepts 1..15; flags table *)
  if N.eqb typ 0 then None else
  let valid_flags :=
    if N.eqb typ 3 then true
    else if N.eqb typ 6 then N.eqb flags 2
    else if N.eqb typ 2 || N.eqb typ 4 || N.eqb typ 5 || N.eqb typ 7 || N.eqb typ 9 || N.eqb typ 11
            || N.eqb typ 13 || N.eqb typ 14 then N.eqb flags 0
    else true in
  if negb valid_flags then None else
  if N.eqb typ 2 then
    match l with
    | spb :: rc :: t =>
        if 1 <? spb then None else
        match de_props t with
        | Some (ps, rest) => Some (RConnAck (N.eqb spb 1) (rc_norm rc) ps, rest)
        | None => None
        end
    | _ => None
    end
  else if N.eqb typ 3 then
    match qos_of_n ((hdr / 2) mod 4) with
    | None => None
    | Some q =>
        match read_field true l with
        | FErr _ => None
        | FOk topic t _ =>
            let pidr := match q with
                        | Q0 => Some (None, t)
                        | _ => match read_u16 t with Some (id, t') => Some (Some id, t') | None => None end
                        end in
            match pidr with
            | None => None
            | Some (pid, t2) =>
                match de_props t2 with
                | Some (ps, rest) =>
                    Some (RPublish topic pid q (N.odd hdr) (N.odd (hdr / 8)) ps [], rest)
                | None => None
                end
            end
        end
    end
  else if N.eqb typ 4 then de_ack RPubAck l
  else if N.eqb typ 5 then de_ack RPubRec l
  else if N.eqb typ 6 then de_ack RPubRel l
  else if N.eqb typ 7 then de_ack RPubComp l
  else if N.eqb typ 9 then de_suback RSubAck l
  else if N.eqb typ 11 then de_suback RUnsubAck l
  else if N.eqb typ 13 then Some (RPingResp, l)
  else if N.eqb typ 14 then
    match l with
    | [] => Some (RDisconnect 0 None, [])
    | c :: t =>
        match t with
        | [] => Some (RDisconnect (rc_norm c) None, [])
        | _ => match de_props t with
               | Some (ps, rest) => Some (RDisconnect (rc_norm c) (Some ps), rest)
               | None => None
               end
        end
    end
  else None.

(* ReceivedPacket::from_buffer: None = any decode error (all map to Peer(InvalidPacket)) *)
Definition from_buffer (buf : bytes) : option rpacket :=
  match buf with
  | [] => None
  | hdr :: t =>
      match varint_read t with
      | VOk _ body =>
          match de_body hdr body with
          | None => None
          | Some (p, rest) =>
              match rest with
              | [] => Some p
              | _ =>
                  match p with
                  | RPublish topic pid q r d ps _ => Some (RPublish topic pid q r d ps rest)
                  | RSubAck pid ps _ => Some (RSubAck pid ps rest)
                  | RUnsubAck pid ps _ => Some (RUnsubAck pid ps rest)
                  | _ => None
                  end
              end
          end
      | _ => None
      end
  end.
