(* Ser.v — MqttSerializer as a bounded buffer, and every outbound packet encoder.
   [src/ser/mod.rs, src/packets.rs, src/wire.rs, src/types.rs, src/will.rs, src/reason_codes.rs] *)
From Minimq Require Import Bytes Varint Utf8 Props.

Inductive serr := EMem | ECustom | EPay.
Inductive sres := SOk (n : N) (b : bytes) | SErr (e : serr).

(* A packet body is a list of chunks; `None` marks a point where serialization raises Custom
   (field longer than 65535 bytes, varint out of range).  Chunks are pushed in order into a buffer of
   `cap` bytes starting at index 5; a chunk that does not fit raises InsufficientMemory. *)
Definition chunk := option bytes.

Definition sat_sub (a b : N) : N := a - b.   (* N subtraction is already saturating *)

Fixpoint ser_push (cap idx : N) (cs : list chunk) (acc : bytes) : sres :=
  match cs with
  | [] => SOk idx acc
  | None :: _ => SErr ECustom
  | Some d :: t =>
      if sat_sub cap idx <? lenN d then SErr EMem
      else ser_push cap (idx + lenN d) t (acc ++ d)
  end.

(* finalize: back-fill the fixed header, right aligned in the 5 reserved bytes *)
Definition finalize (cap idx : N) (body : bytes) (typ flags : N) : sres :=
  match varint_write (idx - 5) with
  | None => SErr EMem
  | Some rl =>
      if cap <? 5 then SErr EMem
      else SOk (5 - lenN rl - 1) ((typ * 16 + flags mod 16) :: rl ++ body)
  end.

(* MqttSerializer::encode_with_offset *)
Definition encode_chunks (cap : N) (typ flags : N) (cs : list chunk) : sres :=
  match ser_push cap 5 cs [] with
  | SErr e => SErr e
  | SOk idx body => finalize cap idx body typ flags
  end.

(* MqttSerializer::encode_publish_with_offset with a `&[u8]` payload *)
Definition encode_chunks_payload (cap : N) (typ flags : N) (cs : list chunk) (payload : bytes)
  : sres :=
  match ser_push cap 5 cs [] with
  | SErr e => SErr e
  | SOk idx body =>
      let start := N.min idx cap in
      if cap - start <? lenN payload then SErr EPay
      else if sat_sub cap idx <? lenN payload then SErr EMem
      else finalize cap (idx + lenN payload) (body ++ payload) typ flags
  end.

(* ---- field encoders ---- *)
Definition c_u8 (v : N) : chunk := Some [v].
Definition c_u16 (v : N) : chunk := Some (u16_be v).
Definition c_str (d : bytes) : chunk := len_prefixed d.          (* Utf8String / BinaryData *)
Definition c_varint (v : N) : chunk := varint_write v.

Definition c_prop (p : prop) : chunk := prop_encode p.

(* Serialize for Properties: Varint(size) then the items (or the raw block) *)
Definition c_properties (ps : properties) : list chunk :=
  c_varint (props_size ps) ::
  match ps with
  | PSlice l => flat_map prop_chunks l
  | PWithCorr c l => prop_chunks c ++ flat_map prop_chunks l
  | PEncoded b => [Some b]
  end.

(* ---- reason codes ---- *)
Definition rc_known (b : N) : bool :=
  N.eqb b 0 || N.eqb b 1 || N.eqb b 2 || N.eqb b 4 || N.eqb b 16 || N.eqb b 17 || N.eqb b 24 || N.eqb b 25
  || inr 128 137 b || inr 140 162 b || N.eqb b 255.
(* ReasonCode::from(u8) followed by u8::from: unknown values collapse to 0xFF *)
Definition rc_norm (b : N) : N := if rc_known b then b else 255.
Definition rc_success (b : N) : bool := b <? 128.

(* ---- packets ---- *)
Inductive qos := Q0 | Q1 | Q2.
Definition qos_n (q : qos) : N := match q with Q0 => 0 | Q1 => 1 | Q2 => 2 end.
Definition qos_of_n (n : N) : option qos :=
  if N.eqb n 0 then Some Q0 else if N.eqb n 1 then Some Q1 else if N.eqb n 2 then Some Q2 else None.
Definition qos_ltb (a b : qos) : bool := qos_n a <? qos_n b.

Record will := { w_topic : bytes; w_data : bytes; w_qos : qos; w_retain : bool; w_props : list prop }.
Record auth := { a_user : bytes; a_pass : bytes }.

Record connect_req := {
  cq_keepalive : N; cq_props : list prop; cq_client_id : bytes;
  cq_auth : option auth; cq_will : option will; cq_clean : bool }.

Definition b2n (b : bool) : N := if b then 1 else 0.

Definition connect_flags (r : connect_req) : N :=
  (if cq_clean r then 2 else 0)
  + match cq_will r with
    | Some w => 4 + qos_n (w_qos w) * 8 + (if w_retain w then 32 else 0)
    | None => 0
    end
  + (if cq_auth r then 192 else 0).

Definition MQTT_NAME : bytes := [77; 81; 84; 84].

Definition connect_chunks (r : connect_req) : list chunk :=
  [c_str MQTT_NAME; c_u8 5; c_u8 (connect_flags r); c_u16 (cq_keepalive r)]
  ++ c_properties (PSlice (cq_props r))
  ++ [c_str (cq_client_id r)]
  ++ match cq_will r with
     | Some w => c_properties (PSlice (w_props w)) ++ [c_str (w_topic w); c_str (w_data w)]
     | None => []
     end
  ++ match cq_auth r with
     | Some a => [c_str (a_user a); c_str (a_pass a)]
     | None => []
     end.
Definition enc_connect (cap : N) (r : connect_req) := encode_chunks cap 1 0 (connect_chunks r).

Record publish_req := {
  pq_topic : bytes; pq_pid : option N; pq_props : properties;
  pq_retain : bool; pq_qos : qos; pq_dup : bool; pq_payload : bytes }.

Definition publish_flags (r : publish_req) : N :=
  qos_n (pq_qos r) * 2 + b2n (pq_retain r) + (if pq_dup r then 8 else 0).
Definition publish_chunks (r : publish_req) : list chunk :=
  [c_str (pq_topic r)]
  ++ match pq_pid r with Some id => [c_u16 id] | None => [] end
  ++ c_properties (pq_props r).
Definition enc_publish (cap : N) (r : publish_req) :=
  encode_chunks_payload cap 3 (publish_flags r) (publish_chunks r) (pq_payload r).

Record sub_opts := { so_qos : qos; so_no_local : bool; so_rap : bool; so_rh : N (* 0,1,2 *) }.
Definition sub_opts_byte (o : sub_opts) : N :=
  qos_n (so_qos o) + (if so_no_local o then 4 else 0) + (if so_rap o then 8 else 0) + so_rh o * 16.

Record subscribe_req := { sq_pid : N; sq_props : list prop; sq_topics : list (bytes * sub_opts) }.
Definition subscribe_chunks (r : subscribe_req) : list chunk :=
  [c_u16 (sq_pid r)] ++ c_properties (PSlice (sq_props r))
  ++ flat_map (fun t => [c_str (fst t); c_u8 (sub_opts_byte (snd t))]) (sq_topics r).
Definition enc_subscribe (cap : N) (r : subscribe_req) := encode_chunks cap 8 2 (subscribe_chunks r).

Record unsubscribe_req := { uq_pid : N; uq_props : list prop; uq_topics : list bytes }.
Definition unsubscribe_chunks (r : unsubscribe_req) : list chunk :=
  [c_u16 (uq_pid r)] ++ c_properties (PSlice (uq_props r)) ++ map c_str (uq_topics r).
Definition enc_unsubscribe (cap : N) (r : unsubscribe_req) := encode_chunks cap 10 2 (unsubscribe_chunks r).

(* Disconnect { reason_code: Option<ReasonCode>, properties: Option<Properties> } *)
Record disconnect_req := { dq_reason : option N; dq_props : option (list prop) }.
Definition disconnect_chunks (r : disconnect_req) : list chunk :=
  match dq_reason r with Some c => [c_u8 (rc_norm c)] | None => [] end
  ++ match dq_props r with Some l => c_properties (PSlice l) | None => [] end.
Definition enc_disconnect (cap : N) (r : disconnect_req) := encode_chunks cap 14 0 (disconnect_chunks r).

(* PubAck/PubRec/PubRel/PubComp with Reason::from(code): packet id, reason byte, no property block *)
Definition ack_chunks (pid reason : N) : list chunk := [c_u16 pid; c_u8 (rc_norm reason)].
Definition enc_ack (cap typ pid reason : N) :=
  encode_chunks cap typ (if N.eqb typ 6 then 2 else 0) (ack_chunks pid reason).
Definition enc_pingreq (cap : N) := encode_chunks cap 12 0 [].
