(* Bytes.v — basic byte-list vocabulary of the model.  Bytes are N < 256, sizes are N. *)
From Coq Require Export List NArith Bool Lia.
Export ListNotations.
Open Scope N_scope.

Definition byte := N.
Definition bytes := list N.

(* length in N, tail recursive (so that vm_compute / extraction never build big nats) *)
Fixpoint lenN_acc (l : bytes) (acc : N) : N :=
  match l with [] => acc | _ :: t => lenN_acc t (N.succ acc) end.
Definition lenN (l : bytes) : N := lenN_acc l 0.

Fixpoint glen {A} (l : list A) : N :=
  match l with [] => 0 | _ :: t => N.succ (glen t) end.

(* take / drop with an N count, structural on the list *)
Fixpoint takeN {A} (n : N) (l : list A) : list A :=
  match l with
  | [] => []
  | x :: t => if N.eqb n 0 then [] else x :: takeN (N.pred n) t
  end.
Fixpoint dropN {A} (n : N) (l : list A) : list A :=
  match l with
  | [] => []
  | x :: t => if N.eqb n 0 then l else dropN (N.pred n) t
  end.

Definition sliceN {A} (off len : N) (l : list A) : list A := takeN len (dropN off l).

Fixpoint nthN {A} (n : N) (l : list A) (d : A) : A :=
  match l with
  | [] => d
  | x :: t => if N.eqb n 0 then x else nthN (N.pred n) t d
  end.

(* replicate *)
Fixpoint repeatN_fuel {A} (fuel : nat) (x : A) : list A :=
  match fuel with O => [] | S f => x :: repeatN_fuel f x end.
Definition zerosN (n : N) : bytes := repeatN_fuel (N.to_nat n) 0.

(* overwrite l at offset off with data d (only where it fits: the callers check bounds) *)
Definition overwrite (l : bytes) (off : N) (d : bytes) : bytes :=
  takeN off l ++ d ++ dropN (off + lenN d) l.

Definition u16_be (v : N) : bytes := [N.shiftr v 8 mod 256; v mod 256].
Definition u32_be (v : N) : bytes :=
  [N.shiftr v 24 mod 256; N.shiftr v 16 mod 256; N.shiftr v 8 mod 256; v mod 256].

Definition is_byte (b : N) : bool := N.ltb b 256.
Definition all_bytes (l : bytes) : bool := forallb is_byte l.

Fixpoint list_eqb (a b : bytes) : bool :=
  match a, b with
  | [], [] => true
  | x :: a', y :: b' => N.eqb x y && list_eqb a' b'
  | _, _ => false
  end.

Fixpoint sumN (l : list N) : N := match l with [] => 0 | x :: t => x + sumN t end.

Definition optN_eqb (a b : option N) : bool :=
  match a, b with
  | None, None => true
  | Some x, Some y => N.eqb x y
  | _, _ => false
  end.
