(* Utf8.v — validity of a byte string as UTF-8, equal to core::str::from_utf8 (Unicode table 3-7). *)
From Minimq Require Import Bytes.

Definition inr (lo hi b : N) : bool := (lo <=? b) && (b <=? hi).
Definition cont (b : N) : bool := inr 128 191 b.

Fixpoint utf8_valid_fuel (fuel : nat) (l : bytes) : bool :=
  match fuel with
  | O => false
  | S f =>
      match l with
      | [] => true
      | b0 :: t =>
          if b0 <? 128 then utf8_valid_fuel f t
          else if inr 194 223 b0 then
            match t with b1 :: t' => cont b1 && utf8_valid_fuel f t' | _ => false end
          else if N.eqb b0 224 then
            match t with b1 :: b2 :: t' => inr 160 191 b1 && cont b2 && utf8_valid_fuel f t' | _ => false end
          else if inr 225 236 b0 || inr 238 239 b0 then
            match t with b1 :: b2 :: t' => cont b1 && cont b2 && utf8_valid_fuel f t' | _ => false end
          else if N.eqb b0 237 then
            match t with b1 :: b2 :: t' => inr 128 159 b1 && cont b2 && utf8_valid_fuel f t' | _ => false end
          else if N.eqb b0 240 then
            match t with b1 :: b2 :: b3 :: t' => inr 144 191 b1 && cont b2 && cont b3 && utf8_valid_fuel f t' | _ => false end
          else if inr 241 243 b0 then
            match t with b1 :: b2 :: b3 :: t' => cont b1 && cont b2 && cont b3 && utf8_valid_fuel f t' | _ => false end
          else if N.eqb b0 244 then
            match t with b1 :: b2 :: b3 :: t' => inr 128 143 b1 && cont b2 && cont b3 && utf8_valid_fuel f t' | _ => false end
          else false
      end
  end.
(* every iteration consumes at least one byte, so length+1 fuel always suffices *)
Definition utf8_valid (l : bytes) : bool := utf8_valid_fuel (S (length l)) l.
