(* Broker.v — the broker's side of the wire: a decoder for the packets a client sends (CONNECT, SUBSCRIBE,
   UNSUBSCRIBE, DISCONNECT; PUBLISH and the acknowledgements have the same layout in both directions and are read
   with De.from_buffer), written from the MQTT 5 text (sections 3.1, 3.8, 3.10, 3.14) over the same field readers
   the client model uses.  It exists to state C09: what this decoder reads from the client's encoder output is the
   request.  [OASIS MQTT 5.0] *)
From Minimq Require Import Bytes Varint Utf8 Props Ser De.

Definition bk_field (l : bytes) : option (bytes * bytes) :=
  match read_field false l with FOk d t _ => Some (d, t) | FErr _ => None end.

Fixpoint all_some {A} (l : list (option A)) : option (list A) :=
  match l with
  | [] => Some []
  | Some x :: t => match all_some t with Some r => Some (x :: r) | None => None end
  | None :: _ => None
  end.

(* property block: length, then that many bytes, every property well-formed *)
Definition bk_props (l : bytes) : option (list prop * bytes) :=
  match de_props l with
  | Some (block, t) => match all_some (props_iter_encoded block) with Some ps => Some (ps, t) | None => None end
  | None => None
  end.

(* ---- CONNECT (3.1) ---- *)
Definition bk_will (flags : N) (l : bytes) : option (option will * bytes) :=
  if N.testbit flags 2 then
    match bk_props l with
    | Some (wps, a) =>
        match bk_field a with
        | Some (wt, b) =>
            match bk_field b with
            | Some (wd, c) =>
                match qos_of_n ((flags / 8) mod 4) with
                | Some q => Some (Some {| w_topic := wt; w_data := wd; w_qos := q; w_retain := N.testbit flags 5; w_props := wps |}, c)
                | None => None
                end
            | None => None
            end
        | None => None
        end
    | None => None
    end
  else if N.eqb ((flags / 8) mod 4) 0 && negb (N.testbit flags 5) then Some (None, l) else None.

(* the client model's configuration has either both user name and password or neither *)
Definition bk_auth (flags : N) (l : bytes) : option (option auth * bytes) :=
  match N.testbit flags 7, N.testbit flags 6 with
  | true, true =>
      match bk_field l with
      | Some (u, a) => match bk_field a with Some (p, b) => Some (Some {| a_user := u; a_pass := p |}, b) | None => None end
      | None => None
      end
  | false, false => Some (None, l)
  | _, _ => None
  end.

Definition bk_connect (body : bytes) : option connect_req :=
  match bk_field body with
  | Some (name, ver :: flags :: l2) =>
      if list_eqb name MQTT_NAME && N.eqb ver 5 && negb (N.testbit flags 0) then
        match read_u16 l2 with
        | Some (ka, l3) =>
            match bk_props l3 with
            | Some (ps, l4) =>
                match bk_field l4 with
                | Some (cid, l5) =>
                    match bk_will flags l5 with
                    | Some (wl, l6) =>
                        match bk_auth flags l6 with
                        | Some (au, []) =>
                            Some {| cq_keepalive := ka; cq_props := ps; cq_client_id := cid; cq_auth := au; cq_will := wl;
                                    cq_clean := N.testbit flags 1 |}
                        | _ => None
                        end
                    | None => None
                    end
                | None => None
                end
            | None => None
            end
        | None => None
        end
      else None
  | _ => None
  end.

(* ---- SUBSCRIBE (3.8) ---- *)
Definition sub_opts_of_byte (o : N) : option sub_opts :=
  if 64 <=? o then None else
  match qos_of_n (o mod 4) with
  | Some q => if 3 <=? o / 16 then None
              else Some {| so_qos := q; so_no_local := N.testbit o 2; so_rap := N.testbit o 3; so_rh := o / 16 |}
  | None => None
  end.

Fixpoint bk_filters (fuel : nat) (l : bytes) : option (list (bytes * sub_opts)) :=
  match l with
  | [] => Some []
  | _ =>
      match fuel with
      | O => None
      | S f =>
          match bk_field l with
          | Some (t, o :: rest) =>
              match sub_opts_of_byte o with
              | Some so => match bk_filters f rest with Some tl => Some ((t, so) :: tl) | None => None end
              | None => None
              end
          | _ => None
          end
      end
  end.

Definition bk_subscribe (body : bytes) : option subscribe_req :=
  match read_u16 body with
  | Some (pid, l1) =>
      match bk_props l1 with
      | Some (ps, l2) =>
          match bk_filters (length l2) l2 with
          | Some (t :: ts) => Some {| sq_pid := pid; sq_props := ps; sq_topics := t :: ts |}
          | _ => None                              (* at least one filter *)
          end
      | None => None
      end
  | None => None
  end.

(* ---- UNSUBSCRIBE (3.10) ---- *)
Fixpoint bk_topics (fuel : nat) (l : bytes) : option (list bytes) :=
  match l with
  | [] => Some []
  | _ =>
      match fuel with
      | O => None
      | S f =>
          match bk_field l with
          | Some (t, rest) => match bk_topics f rest with Some tl => Some (t :: tl) | None => None end
          | None => None
          end
      end
  end.

Definition bk_unsubscribe (body : bytes) : option unsubscribe_req :=
  match read_u16 body with
  | Some (pid, l1) =>
      match bk_props l1 with
      | Some (ps, l2) =>
          match bk_topics (length l2) l2 with
          | Some (t :: ts) => Some {| uq_pid := pid; uq_props := ps; uq_topics := t :: ts |}
          | _ => None
          end
      | None => None
      end
  | None => None
  end.

(* ---- DISCONNECT (3.14): reason and property block may both be omitted, the block only after a reason ---- *)
Definition bk_disconnect (body : bytes) : option disconnect_req :=
  match body with
  | [] => Some {| dq_reason := None; dq_props := None |}
  | [c] => Some {| dq_reason := Some c; dq_props := None |}
  | c :: t => match bk_props t with
              | Some (ps, []) => Some {| dq_reason := Some c; dq_props := Some ps |}
              | _ => None
              end
  end.

Inductive cpacket :=
| BConnect (r : connect_req) | BSubscribe (r : subscribe_req) | BUnsubscribe (r : unsubscribe_req)
| BDisconnect (r : disconnect_req).

Definition opt_map {A B} (f : A -> B) (o : option A) : option B := match o with Some a => Some (f a) | None => None end.

(* a whole packet: fixed header byte (type and the flags section 2.1.3 prescribes), remaining length = what follows *)
Definition broker_decode (bs : bytes) : option cpacket :=
  match bs with
  | [] => None
  | hdr :: t =>
      match varint_read t with
      | VOk n body =>
          if negb (N.eqb n (lenN body)) then None
          else if N.eqb hdr 16 then opt_map BConnect (bk_connect body)
          else if N.eqb hdr 130 then opt_map BSubscribe (bk_subscribe body)
          else if N.eqb hdr 162 then opt_map BUnsubscribe (bk_unsubscribe body)
          else if N.eqb hdr 224 then opt_map BDisconnect (bk_disconnect body)
          else None
      | _ => None
      end
  end.
