(* Main.v — single entry point of the executable model: token stream in, canonical text out. *)
From Coq Require Import String.
From Minimq Require Import Bytes Varint Utf8 Props Ser De Reader Arena Core Show Parse Machine Run Reply.

Definition run_p {A} (p : parser A) (f : A -> text) (l : list N) : text :=
  match p l with
  | Some (a, []) => f a
  | Some (_, _ :: _) => s2t "BADCASE trailing"
  | None => s2t "BADCASE parse"
  end.

Definition owned_caps (sel : N) : N * N :=
  if N.eqb sel 0 then (0, 0) else if N.eqb sel 1 then (1, 1) else if N.eqb sel 2 then (4, 4)
  else if N.eqb sel 3 then (8, 2) else if N.eqb sel 4 then (2, 8) else if N.eqb sel 5 then (16, 16)
  else if N.eqb sel 6 then (64, 64) else (128, 128).

Definition show_reply (buf : bytes) (user : list prop) (sel : N) : text :=
  match from_buffer buf with
  | Some (RPublish _ _ _ _ _ ps _) =>
      let inbound := PEncoded ps in
      s2t "rt=" ++ match response_topic inbound with Some t => s2t "x" ++ hex t | None => s2t "-" end
      ++ s2t " cd=" ++ match correlation_data inbound with Some c => s2t "x" ++ hex c | None => s2t "-" end
      ++ s2t " reply=" ++
         match reply_with inbound user with
         | None => s2t "none"
         | Some r => show_sres (enc_publish 4096 {| pq_topic := rp_topic r; pq_pid := None; pq_props := rp_props r;
                                                     pq_retain := false; pq_qos := Q0; pq_dup := false; pq_payload := [114] |})
         end
      ++ s2t " owned=" ++
         let '(T, C) := owned_caps sel in
         match reply_owned inbound T C with
         | OwnNone => s2t "none"
         | OwnErr => s2t "ERR"
         | OwnOk t c => s2t "t=x" ++ hex t ++ s2t " c=" ++ match c with Some c => s2t "x" ++ hex c | None => s2t "-" end
              ++ s2t " p=" ++
              let r := owned_publication t c user in
              show_sres (enc_publish 4096 {| pq_topic := rp_topic r; pq_pid := None; pq_props := rp_props r;
                                             pq_retain := false; pq_qos := Q0; pq_dup := false; pq_payload := [114] |})
         end
  | _ => s2t "NOTPUB"
  end.

Definition exec_codec (cmd : N) (l : list N) : option text :=
  if N.eqb cmd 1 then Some (run_p p_bytes show_decode l)
  else if N.eqb cmd 2 then
    Some (run_p (rx <- p_N ;; i <- p_bytes ;; f <- p_list p_N ;; p_ret (rx, i, f))
                (fun '(rx, i, f) => show_reader_run rx i f) l)
  else if N.eqb cmd 3 then
    Some (run_p (p <- p_prop ;; c <- p_ctx ;; p_ret (p, c)) (fun '(p, c) => show_bool (is_valid_for p c)) l)
  else if N.eqb cmd 4 then
    Some (run_p (cap <- p_N ;; r <- p_connect_req ;; p_ret (cap, r)) (fun '(cap, r) => show_sres (enc_connect cap r)) l)
  else if N.eqb cmd 5 then
    Some (run_p (cap <- p_N ;; r <- p_publish_req ;; p_ret (cap, r)) (fun '(cap, r) => show_sres (enc_publish cap r)) l)
  else if N.eqb cmd 6 then
    Some (run_p (cap <- p_N ;; r <- p_subscribe_req ;; p_ret (cap, r)) (fun '(cap, r) => show_sres (enc_subscribe cap r)) l)
  else if N.eqb cmd 7 then
    Some (run_p (cap <- p_N ;; r <- p_unsubscribe_req ;; p_ret (cap, r)) (fun '(cap, r) => show_sres (enc_unsubscribe cap r)) l)
  else if N.eqb cmd 8 then
    Some (run_p (cap <- p_N ;; r <- p_disconnect_req ;; p_ret (cap, r)) (fun '(cap, r) => show_sres (enc_disconnect cap r)) l)
  else if N.eqb cmd 9 then
    Some (run_p (cap <- p_N ;; k <- p_N ;; pid <- p_N ;; rc <- p_N ;; p_ret (cap, k, pid, rc))
                (fun '(cap, k, pid, rc) =>
                   show_sres (if N.eqb k 12 then enc_pingreq cap else enc_ack cap k pid rc)) l)
  else if N.eqb cmd 10 then Some (run_p p_case show_run l)
  else if N.eqb cmd 11 then
    Some (run_p (b <- p_bytes ;; u <- p_list p_prop ;; sel <- p_N ;; p_ret (b, u, sel))
                (fun '(b, u, sel) => show_reply b u sel) l)
  else None.

Definition exec (l : list N) : text :=
  match l with
  | [] => s2t "BADCASE empty"
  | cmd :: rest =>
      match exec_codec cmd rest with
      | Some t => t
      | None => s2t "BADCASE cmd"
      end
  end.
