(* Main.v — single entry point of the executable model: token stream in, canonical text out. *)
From Coq Require Import String.
From Minimq Require Import Bytes Varint Utf8 Props Ser De Reader Arena Core Show Parse Machine Run.

Definition run_p {A} (p : parser A) (f : A -> text) (l : list N) : text :=
  match p l with
  | Some (a, []) => f a
  | Some (_, _ :: _) => s2t "BADCASE trailing"
  | None => s2t "BADCASE parse"
  end.

Definition exec_codec (cmd : N) (l : list N) : option text :=
  if N.eqb cmd 1 then Some (run_p p_bytes show_decode l)
  else if N.eqb cmd 2 then
    Some (run_p (rx <- p_N ;; i <- p_bytes ;; f <- p_list p_N ;; p_ret (rx, i, f))
                (fun '(rx, i, f) => show_reader_run rx i f) l)
  else if N.eqb cmd 3 then
    Some (run_p (p <- p_prop ;; c <- p_ctx ;; p_ret (p, c)) (fun '(p, c) => show_bool (is_valid_for p c)) l)
  else if N.eqb cmd 4 then
    Some (run_p (cap <- p_N ;; r <- p_connect_req ;; p_ret (cap, r)) (fun '(cap, r) => show_sres (enc_connect cap r)) l)
  else if N.eqb cmd 5 then
    Some (run_p (cap <- p_N ;; r <- p_publish_req ;; p_ret (cap, r)) (fun '(cap, r) => show_sres (enc_publish cap r)) l)
  else if N.eqb cmd 6 then
    Some (run_p (cap <- p_N ;; r <- p_subscribe_req ;; p_ret (cap, r)) (fun '(cap, r) => show_sres (enc_subscribe cap r)) l)
  else if N.eqb cmd 7 then
    Some (run_p (cap <- p_N ;; r <- p_unsubscribe_req ;; p_ret (cap, r)) (fun '(cap, r) => show_sres (enc_unsubscribe cap r)) l)
  else if N.eqb cmd 8 then
    Some (run_p (cap <- p_N ;; r <- p_disconnect_req ;; p_ret (cap, r)) (fun '(cap, r) => show_sres (enc_disconnect cap r)) l)
  else if N.eqb cmd 9 then
    Some (run_p (cap <- p_N ;; k <- p_N ;; pid <- p_N ;; rc <- p_N ;; p_ret (cap, k, pid, rc))
                (fun '(cap, k, pid, rc) =>
                   show_sres (if N.eqb k 12 then enc_pingreq cap else enc_ack cap k pid rc)) l)
  else if N.eqb cmd 10 then Some (run_p p_case show_run l)
  else None.

Definition exec (l : list N) : text :=
  match l with
  | [] => s2t "BADCASE empty"
  | cmd :: rest =>
      match exec_codec cmd rest with
      | Some t => t
      | None => s2t "BADCASE cmd"
      end
  end.
