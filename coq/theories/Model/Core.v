(* Core.v — session state and every synchronous block of the client (the code between two awaits).
   [src/mqtt_client/session/{state,mod,handshake,inbound,operations,drive}.rs] *)
From Minimq Require Import Bytes Varint Utf8 Props Ser De Reader Arena.

Definition ROUND_TRIP_TIMEOUT_MS : N := 5000.
Definition MAX_INBOUND_QOS2 : N := 8.

Inductive err :=
| ENotReady | EDisconnected | EInvalidRequest | ERejected (rc : N) | EInvalidPacket
| EBufferTooSmall | EPacketTooLarge | EInflightExhausted | ETransport | EWriteZero | EPayload.

Definition err_of_serr (e : serr) : err :=
  match e with EMem => EBufferTooSmall | ECustom => EInvalidRequest | EPay => EPayload end.

Record runtime := {
  rt_resumed : bool;
  rt_ka_ms : N;                 (* keepalive_interval, in ms *)
  rt_quota : N; rt_maxquota : N;
  rt_mps : option N; rt_maxqos : option qos;
  rt_next_ping : option N; rt_ping_timeout : option N }.

Record config := {
  cf_rx : N; cf_tx : N; cf_client_id : bytes; cf_keepalive_s : N; cf_expiry : N;
  cf_downgrade : bool; cf_will : option will; cf_auth : option auth }.

Record session := {
  s_cfg : config;
  s_client_id : bytes;
  s_reader : reader;
  s_ob : outbound;
  s_pid : N;                    (* next packet identifier, 1..65535 *)
  s_gen : N;
  s_sp : bool;                  (* session_present *)
  s_srv : list N;               (* pending_server_packet_ids *)
  s_rt : runtime }.

Definition rt_new (ka_ms : N) : runtime :=
  {| rt_resumed := false; rt_ka_ms := ka_ms; rt_quota := 65535; rt_maxquota := 65535;
     rt_mps := None; rt_maxqos := None; rt_next_ping := None; rt_ping_timeout := None |}.

Definition session_new (c : config) : session :=
  {| s_cfg := c; s_client_id := cf_client_id c; s_reader := reader_new (cf_rx c); s_ob := ob_new (cf_tx c);
     s_pid := 1; s_gen := 0; s_sp := false; s_srv := []; s_rt := rt_new ((cf_keepalive_s c mod 65536) * 1000) |}.   (* the API takes a u16 *)

(* record updates *)
Definition set_rt (s : session) (r : runtime) : session :=
  {| s_cfg := s_cfg s; s_client_id := s_client_id s; s_reader := s_reader s; s_ob := s_ob s; s_pid := s_pid s;
     s_gen := s_gen s; s_sp := s_sp s; s_srv := s_srv s; s_rt := r |}.
Definition set_ob (s : session) (o : outbound) : session :=
  {| s_cfg := s_cfg s; s_client_id := s_client_id s; s_reader := s_reader s; s_ob := o; s_pid := s_pid s;
     s_gen := s_gen s; s_sp := s_sp s; s_srv := s_srv s; s_rt := s_rt s |}.
Definition set_reader (s : session) (r : reader) : session :=
  {| s_cfg := s_cfg s; s_client_id := s_client_id s; s_reader := r; s_ob := s_ob s; s_pid := s_pid s;
     s_gen := s_gen s; s_sp := s_sp s; s_srv := s_srv s; s_rt := s_rt s |}.
Definition set_srv (s : session) (l : list N) : session :=
  {| s_cfg := s_cfg s; s_client_id := s_client_id s; s_reader := s_reader s; s_ob := s_ob s; s_pid := s_pid s;
     s_gen := s_gen s; s_sp := s_sp s; s_srv := l; s_rt := s_rt s |}.

Definition rt_with_timers (r : runtime) (np pt : option N) : runtime :=
  {| rt_resumed := rt_resumed r; rt_ka_ms := rt_ka_ms r; rt_quota := rt_quota r; rt_maxquota := rt_maxquota r;
     rt_mps := rt_mps r; rt_maxqos := rt_maxqos r; rt_next_ping := np; rt_ping_timeout := pt |}.
Definition rt_with_quota (r : runtime) (q : N) : runtime :=
  {| rt_resumed := rt_resumed r; rt_ka_ms := rt_ka_ms r; rt_quota := q; rt_maxquota := rt_maxquota r;
     rt_mps := rt_mps r; rt_maxqos := rt_maxqos r; rt_next_ping := rt_next_ping r;
     rt_ping_timeout := rt_ping_timeout r |}.

(* RuntimeState *)
Definition reset_transport (r : runtime) : runtime :=
  {| rt_resumed := false; rt_ka_ms := rt_ka_ms r; rt_quota := rt_quota r; rt_maxquota := rt_maxquota r;
     rt_mps := rt_mps r; rt_maxqos := rt_maxqos r; rt_next_ping := None; rt_ping_timeout := None |}.
Definition keepalive_send_interval (r : runtime) : option N :=
  if N.eqb (rt_ka_ms r) 0 then None
  else Some (rt_ka_ms r - N.min ROUND_TRIP_TIMEOUT_MS (rt_ka_ms r / 2)).
Definition note_outbound_activity (r : runtime) (now : N) : runtime :=
  rt_with_timers r (match keepalive_send_interval r with Some i => Some (now + i) | None => None end)
                 (rt_ping_timeout r).
Definition next_deadline (r : runtime) : option N :=
  match rt_next_ping r, rt_ping_timeout r with
  | Some a, Some b => Some (N.min a b)
  | Some a, None => Some a
  | None, Some b => Some b
  | None, None => None
  end.
Definition quota_inc (r : runtime) : runtime :=
  rt_with_quota r (N.min (N.min (rt_quota r + 1) 65535) (rt_maxquota r)).

(* SessionData *)
Definition data_reset (s : session) : session :=
  {| s_cfg := s_cfg s; s_client_id := s_client_id s; s_reader := s_reader s; s_ob := ob_clear (s_ob s);
     s_pid := 1; s_gen := (s_gen s + 1) mod 4294967296; s_sp := false; s_srv := []; s_rt := s_rt s |}.
Definition pid_succ (id : N) : N := if N.eqb id 65535 then 1 else id + 1.
Definition set_pid (s : session) (p : N) : session :=
  {| s_cfg := s_cfg s; s_client_id := s_client_id s; s_reader := s_reader s; s_ob := s_ob s; s_pid := p;
     s_gen := s_gen s; s_sp := s_sp s; s_srv := s_srv s; s_rt := s_rt s |}.
Definition pid_in_use (o : outbound) (id : N) : bool := has_retained o id || has_pending_release o id.
(* the loop of next_packet_id: skip identifiers still in flight.  At most 16 are in use, so 17 candidates
   suffice; running out of fuel is impossible (theorem next_packet_id_fuel) and returns 0, never a valid id. *)
Fixpoint next_packet_id_go (fuel : nat) (o : outbound) (cur : N) : N * N :=
  match fuel with
  | O => (cur, 0)
  | S f => if pid_in_use o cur then next_packet_id_go f o (pid_succ cur) else (pid_succ cur, cur)
  end.
Definition next_packet_id (s : session) : session * N :=
  let '(nxt, id) := next_packet_id_go 17 (s_ob s) (s_pid s) in
  (set_pid s nxt, id).

(* Session::handle_disconnect *)
Definition sess_handle_disconnect (s : session) : session :=
  set_reader (set_rt (set_ob s (arm_replay (s_ob s))) (reset_transport (s_rt s))) (reader_reset (s_reader s)).

Definition sess_can_publish (s : session) (q : qos) : bool :=
  match q with
  | Q0 => MAX_FIXED_HEADER_SIZE <=? scratch_len (s_ob s)
  | _ => negb (N.eqb (rt_quota (s_rt s)) 0) && can_retain (s_ob s)
  end.

(* operation handles: kind 0 = PublishAtLeastOnce, 1 = PublishExactlyOnce, 2 = Subscribe, 3 = Unsubscribe *)
Record op := { op_kind : N; op_pid : N; op_gen : N }.
Inductive opstatus := StPending | StComplete | StInvalidated.
Definition status (s : session) (o : op) : opstatus :=
  if negb (N.eqb (op_gen o) (s_gen s)) then StInvalidated
  else
    let pending :=
      if N.eqb (op_kind o) 1 then has_retained (s_ob s) (op_pid o) || has_pending_release (s_ob s) (op_pid o)
      else has_retained (s_ob s) (op_pid o) in
    if pending then StPending else StComplete.

(* ---------- handle_packet (inbound.rs) ---------- *)
Inductive hres := HOk (deliver : bool) | HErr (e : err).

Definition all_success (codes : bytes) : option N :=   (* first failing code, normalised *)
  match find (fun c => negb (rc_success (rc_norm c))) codes with Some c => Some (rc_norm c) | None => None end.

Definition check_control_size (mps : option N) (a : caction) : option err :=
  match encode_control_packet a with
  | SErr e => Some (err_of_serr e)
  | SOk _ b => if too_large mps (lenN b) then Some EPacketTooLarge else None
  end.
Definition check_pubrel_size (mps : option N) (pid rc : N) : option err :=
  match encode_pubrel pid rc with
  | SErr e => Some (err_of_serr e)
  | SOk _ b => if too_large mps (lenN b) then Some EPacketTooLarge else None
  end.

Definition queue_ctl_checked (s : session) (a : caction) (deliver : bool) : session * hres :=
  match check_control_size (rt_mps (s_rt s)) a with
  | Some e => (s, HErr e)
  | None =>
      match queue_control (s_ob s) a with
      | None => (s, HErr EInflightExhausted)
      | Some o => (set_ob s o, HOk deliver)
      end
  end.

Fixpoint swap_remove_id (id : N) (l : list N) : option (list N) :=
  match l with
  | [] => None
  | x :: t =>
      if N.eqb x id then
        match rev t with [] => Some [] | lst :: rinit => Some (lst :: rev rinit) end
      else match swap_remove_id id t with Some t' => Some (x :: t') | None => None end
  end.
Definition mem_id (id : N) (l : list N) : bool := existsb (N.eqb id) l.

Definition handle_packet (s : session) (p : rpacket) : session * hres :=
  match p with
  | RConnAck _ _ _ => (s, HErr EInvalidPacket)
  | RSubAck pid _ codes | RUnsubAck pid _ codes =>
      let '(o, found) := ack_packet (s_ob s) pid in
      if negb found then (s, HOk false) else
      match all_success codes with
      | Some c => (set_ob s o, HErr (ERejected c))
      | None => (set_ob s o, HOk false)
      end
  | RPingResp => (set_rt s (rt_with_timers (s_rt s) (rt_next_ping (s_rt s)) None), HOk false)
  | RPubAck pid rc =>
      let '(o, found) := ack_packet (s_ob s) pid in
      if negb found then (s, HOk false) else
      let s1 := set_rt (set_ob s o) (quota_inc (s_rt s)) in
      if rc_success rc then (s1, HOk false) else (s1, HErr (ERejected rc))
  | RPubRec pid rc =>
      let '(o, found) := ack_packet (s_ob s) pid in
      if found then
        if negb (rc_success rc) then (set_rt (set_ob s o) (quota_inc (s_rt s)), HErr (ERejected rc)) else
        let s1 := set_ob s o in
        match check_pubrel_size (rt_mps (s_rt s1)) pid 0 with
        | Some e => (s1, HErr e)
        | None =>
            match queue_release (s_ob s1) pid 0 with
            | None => (s1, HErr EInflightExhausted)
            | Some o2 => (set_ob s1 o2, HOk false)
            end
        end
      else if has_pending_release (s_ob s) pid then
        if rc_success rc then (s, HOk false) else (s, HErr (ERejected rc))
      else (s, HOk false)
  | RPubComp pid rc =>
      let '(o, found) := ack_release (s_ob s) pid in
      if negb found then (s, HOk false) else
      let s1 := set_rt (set_ob s o) (quota_inc (s_rt s)) in
      if rc_success rc then (s1, HOk false) else (s1, HErr (ERejected rc))
  | RPubRel pid _ =>
      let '(s1, reason) :=
        match swap_remove_id pid (s_srv s) with
        | Some l => (set_srv s l, 0)
        | None => (s, 146)               (* PacketIdNotFound = 0x92 *)
        end in
      queue_ctl_checked s1 (CPubComp pid reason) false
  | RPublish _ pid q _ _ _ _ =>
      match q with
      | Q0 => (s, HOk true)
      | Q1 =>
          match pid with
          | None => (s, HErr EInvalidPacket)
          | Some id =>
              let reason := if mem_id id (s_srv s) then 145 else 0 in   (* PacketIdInUse = 0x91 *)
              queue_ctl_checked s (CPubAck id reason) true
          end
      | Q2 =>
          match pid with
          | None => (s, HErr EInvalidPacket)
          | Some id =>
              let duplicate := mem_id id (s_srv s) in
              let full := MAX_INBOUND_QOS2 <=? glen (s_srv s) in
              let reason := if duplicate then 0 else if full then 147 else 0 in   (* ReceiveMaxExceeded = 0x93 *)
              (* the identifier is remembered only once its PUBREC is owed (fix 6ec1ca9) *)
              let '(s1, hr) := queue_ctl_checked s (CPubRec id reason) (negb (duplicate || negb (rc_success reason))) in
              (match hr with
               | HOk _ => if duplicate || full then s1 else set_srv s1 (s_srv s ++ [id])
               | HErr _ => s1
               end, hr)
          end
      end
  | RDisconnect _ _ => (s, HErr EDisconnected)
  end.

(* ghost (environment assumption of C06/C18): a PUBACK / PUBREC names a retained PUBLISH, never a retained
   SUBSCRIBE / UNSUBSCRIBE (the client matches acknowledgements to retained packets by identifier only) *)
Definition ack_type_ok (s : session) (p : rpacket) : bool :=
  match p with
  | RPubAck pid _ | RPubRec pid _ =>
      match find (fun e => N.eqb (re_pid e) pid) (ob_ret (s_ob s)) with
      | Some e => is_publish_entry (ob_buf (s_ob s)) e
      | None => true
      end
  | _ => true
  end.

(* ---------- CONNECT request and CONNACK processing (handshake.rs) ---------- *)
Definition connect_request (s : session) : connect_req :=
  {| cq_keepalive := cf_keepalive_s (s_cfg s) mod 65536;
     cq_props := [mkprop KMaximumPacketSize (rcap (s_reader s) mod 4294967296) [] [];
                  mkprop KSessionExpiryInterval (cf_expiry (s_cfg s)) [] [];
                  mkprop KReceiveMaximum MAX_INBOUND_QOS2 [] []];
     cq_client_id := s_client_id s;
     cq_auth := cf_auth (s_cfg s);
     cq_will := cf_will (s_cfg s);
     cq_clean := negb (s_sp s) |}.

Record connack_acc := {
  ca_quota : N; ca_maxquota : N; ca_maxqos : option qos; ca_mps : option N; ca_ka_ms : N;
  ca_cid : option bytes }.

Fixpoint connack_props (its : list (option prop)) (local_quota : N) (a : connack_acc) : option connack_acc :=
  match its with
  | [] => Some a
  | None :: _ => None
  | Some p :: t =>
      let upd (a' : connack_acc) := connack_props t local_quota a' in
      match pk p with
      | KMaximumPacketSize =>
          upd {| ca_quota := ca_quota a; ca_maxquota := ca_maxquota a; ca_maxqos := ca_maxqos a;
                 ca_mps := Some (pnum p); ca_ka_ms := ca_ka_ms a; ca_cid := ca_cid a |}
      | KAssignedClientIdentifier =>
          if 64 <? lenN (pdata p) then None
          else upd {| ca_quota := ca_quota a; ca_maxquota := ca_maxquota a; ca_maxqos := ca_maxqos a;
                      ca_mps := ca_mps a; ca_ka_ms := ca_ka_ms a; ca_cid := Some (pdata p) |}
      | KServerKeepAlive =>
          upd {| ca_quota := ca_quota a; ca_maxquota := ca_maxquota a; ca_maxqos := ca_maxqos a;
                 ca_mps := ca_mps a; ca_ka_ms := pnum p * 1000; ca_cid := ca_cid a |}
      | KReceiveMaximum =>
          if N.eqb (pnum p) 0 then None
          else upd {| ca_quota := N.min (pnum p) local_quota; ca_maxquota := N.min (pnum p) local_quota;
                      ca_maxqos := ca_maxqos a; ca_mps := ca_mps a; ca_ka_ms := ca_ka_ms a; ca_cid := ca_cid a |}
      | KMaximumQoS =>
          match qos_of_n (pnum p) with
          | None => None
          | Some q => upd {| ca_quota := ca_quota a; ca_maxquota := ca_maxquota a; ca_maxqos := Some q;
                             ca_mps := ca_mps a; ca_ka_ms := ca_ka_ms a; ca_cid := ca_cid a |}
          end
      | _ => upd a
      end
  end.

Inductive connack_res := CAOk (resumed : bool) | CAErr (e : err) (disconnect : bool).

(* everything after a packet has been taken from the reader in connect_handshake *)
Definition connack_process (s : session) (p : option rpacket) (now : N) : session * connack_res :=
  match p with
  | None => (s, CAErr EInvalidPacket true)
  | Some (RDisconnect _ _) => (s, CAErr EDisconnected true)
  | Some (RConnAck sp rc props) =>
      if negb (rc_success rc) then (s, CAErr (ERejected rc) false) else
      let local_quota := N.min MAX_RETAINED MAX_PENDING_RELEASE in
      let a0 := {| ca_quota := local_quota; ca_maxquota := local_quota; ca_maxqos := None; ca_mps := None;
                   ca_ka_ms := (cf_keepalive_s (s_cfg s) mod 65536) * 1000; ca_cid := None |} in
      match connack_props (props_iter_encoded props) local_quota a0 with
      | None => (s, CAErr EInvalidPacket true)
      | Some a =>
          let s1 := if sp then s else data_reset s in
          let r := {| rt_resumed := sp; rt_ka_ms := ca_ka_ms a;
                      rt_quota := ca_quota a - unresolved_publishes (s_ob s1); rt_maxquota := ca_maxquota a;
                      rt_mps := ca_mps a; rt_maxqos := ca_maxqos a;
                      rt_next_ping := rt_next_ping (s_rt s1); rt_ping_timeout := rt_ping_timeout (s_rt s1) |} in
          let r2 := rt_with_timers (note_outbound_activity r now) (rt_next_ping (note_outbound_activity r now)) None in
          let s2 := {| s_cfg := s_cfg s1;
                       s_client_id := match ca_cid a with Some c => c | None => s_client_id s1 end;
                       s_reader := s_reader s1; s_ob := s_ob s1; s_pid := s_pid s1; s_gen := s_gen s1;
                       s_sp := true; s_srv := s_srv s1; s_rt := r2 |} in
          (s2, CAOk sp)
      end
  | Some _ => (s, CAErr EInvalidPacket true)
  end.

(* ---------- synchronous middles of the operations (operations.rs) ---------- *)
Record pub_req := { pr_topic : bytes; pr_props : properties; pr_qos : qos; pr_payload : bytes; pr_retain : bool }.

Inductive midres :=
| MErr (e : err)                      (* operation returns this error *)
| MRetained (o : op)                  (* packet enqueued; continue with flush_outbound and return the handle *)
| MDirect (bs : bytes).               (* QoS 0: write these bytes directly *)

Definition effective_qos (s : session) (q : qos) : qos :=
  match rt_maxqos (s_rt s) with
  | Some m => if cf_downgrade (s_cfg s) && qos_ltb m q then m else q
  | None => q
  end.

Definition publish_middle (s : session) (live : bool) (r : pub_req) : session * midres :=
  if negb (props_valid_for (pr_props r) CtxPublish) then (s, MErr EInvalidRequest) else
  let q := effective_qos s (pr_qos r) in
  match q with
  | Q0 =>
      if negb (live && sess_can_publish s Q0) then (s, MErr ENotReady) else
      (* scratch_space(): compact, then encode into buf[used..] *)
      let o1 := compact (s_ob s) in
      let s1 := set_ob s o1 in
      let req := {| pq_topic := pr_topic r; pq_pid := None; pq_props := pr_props r; pq_retain := pr_retain r;
                    pq_qos := Q0; pq_dup := false; pq_payload := pr_payload r |} in
      match enc_publish (ob_cap o1 - ob_used o1) req with
      | SErr e => (s1, MErr (err_of_serr e))
      | SOk _ bs =>
          if too_large (rt_mps (s_rt s1)) (lenN bs) then (s1, MErr EPacketTooLarge)
          else if negb live then (s1, MErr EDisconnected)
          else (s1, MDirect bs)
      end
  | _ =>
      let '(s1, id) := next_packet_id s in
      if retained_full (s_ob s1) then (s1, MErr EInflightExhausted) else
      if negb (live && sess_can_publish s1 q) then (s1, MErr ENotReady) else
      let req := {| pq_topic := pr_topic r; pq_pid := Some id; pq_props := pr_props r; pq_retain := pr_retain r;
                    pq_qos := q; pq_dup := false; pq_payload := pr_payload r |} in
      let '(o1, er) := encode_at (s_ob s1) (fun cap => enc_publish cap req) in
      let s2 := set_ob s1 o1 in
      match er with
      | EErr e => (s2, MErr (err_of_serr e))
      | EOk off len =>
          if too_large (rt_mps (s_rt s2)) len then (s2, MErr EPacketTooLarge) else
          match retain_packet o1 id off len with
          | None => (s2, MErr EInflightExhausted)
          | Some o2 =>
              let s3 := set_rt (set_ob s2 o2) (rt_with_quota (s_rt s2) (rt_quota (s_rt s2) - 1)) in
              (s3, MRetained {| op_kind := match q with Q2 => 1 | _ => 0 end; op_pid := id; op_gen := s_gen s3 |})
          end
      end
  end.

(* subscribe / unsubscribe after validation and the pre-flush *)
Definition enqueue_middle (s : session) (kind : N) (enc : N -> N -> sres) : session * midres :=
  if retained_full (s_ob s) then (s, MErr EInflightExhausted) else
  let '(s1, id) := next_packet_id s in
  let '(o1, er) := encode_at (s_ob s1) (fun cap => enc cap id) in
  let s2 := set_ob s1 o1 in
  match er with
  | EErr e => (s2, MErr (err_of_serr e))
  | EOk off len =>
      if too_large (rt_mps (s_rt s2)) len then (s2, MErr EPacketTooLarge) else
      match retain_packet o1 id off len with
      | None => (s2, MErr EInflightExhausted)
      | Some o2 => (set_ob s2 o2, MRetained {| op_kind := kind; op_pid := id; op_gen := s_gen s2 |})
      end
  end.

Definition subscribe_middle (s : session) (topics : list (bytes * sub_opts)) (ps : list prop) : session * midres :=
  enqueue_middle s 2 (fun cap id => enc_subscribe cap {| sq_pid := id; sq_props := ps; sq_topics := topics |}).
Definition unsubscribe_middle (s : session) (topics : list bytes) (ps : list prop) : session * midres :=
  enqueue_middle s 3 (fun cap id => enc_unsubscribe cap {| uq_pid := id; uq_props := ps; uq_topics := topics |}).

(* disconnect_with up to the first write: Some bytes, or the error to return *)
Inductive dprep := DPErr (e : err) | DPOk (bs : bytes).
Definition disconnect_prepare (s : session) (d : disconnect_req) : dprep :=
  let bad := match dq_props d with
             | Some l => negb (props_valid_for (PSlice l) CtxDisconnect)
             | None => false end in
  if bad then DPErr EInvalidRequest else
  match enc_disconnect CONTROL_PACKET_LEN d with
  | SErr e => DPErr (err_of_serr e)
  | SOk _ bs => if too_large (rt_mps (s_rt s)) (lenN bs) then DPErr EPacketTooLarge else DPOk bs
  end.

(* ---------- the outbound engine's synchronous parts (drive.rs) ---------- *)
Inductive fpkt := FCtl (a : caction) | FRel (pid : N) | FRet (pid : N).

Inductive prepared :=
| PWrite (p : fpkt) (bytes : bytes) (written len : N)
| PFlush (p : fpkt)
| PDone
| PErr (e : err).

Definition prepare_step (s : session) (st : ostep) : prepared :=
  match st with
  | StCtl a (SWrite w) =>
      match encode_control_packet a with
      | SErr e => PErr (err_of_serr e)
      | SOk _ bs => if too_large (rt_mps (s_rt s)) (lenN bs) then PErr EPacketTooLarge
                    else PWrite (FCtl a) bs w (lenN bs)
      end
  | StCtl a SFlush => PFlush (FCtl a)
  | StCtl _ SSent => PDone
  | StRel pid rc (SWrite w) =>
      match encode_pubrel pid rc with
      | SErr e => PErr (err_of_serr e)
      | SOk _ bs => if too_large (rt_mps (s_rt s)) (lenN bs) then PErr EPacketTooLarge
                    else PWrite (FRel pid) bs w (lenN bs)
      end
  | StRel pid _ SFlush => PFlush (FRel pid)
  | StRel _ _ SSent => PDone
  | StRet pid off len (SWrite w) =>
      if too_large (rt_mps (s_rt s)) len then PErr EPacketTooLarge
      else PWrite (FRet pid) (retained_packet (s_ob s) off len) w len
  | StRet pid _ _ SFlush => PFlush (FRet pid)
  | StRet _ _ _ SSent => PDone
  end.

(* set_written; the bool is `found` (debug_assert) *)
Definition set_written (s : session) (p : fpkt) (written len : N) : session * bool :=
  let '(o, b) := match p with
                 | FCtl a => set_control_written (s_ob s) a written len
                 | FRel pid => set_release_written (s_ob s) pid written len
                 | FRet pid => set_retained_written (s_ob s) pid written len
                 end in
  (set_ob s o, b).

Definition complete_flush (s : session) (p : fpkt) (now : N) : session * bool :=
  let r0 := s_rt s in
  let r1 := match p with
            | FCtl CPing => rt_with_timers r0 (rt_next_ping r0) (Some (now + ROUND_TRIP_TIMEOUT_MS))
            | _ => r0 end in
  let r2 := note_outbound_activity r1 now in
  let '(o, b) := match p with
                 | FCtl a => flush_control (s_ob s) a
                 | FRel pid => flush_release (s_ob s) pid
                 | FRet pid => flush_retained (s_ob s) pid
                 end in
  (set_rt (set_ob s o) r2, b).

Definition should_queue_pingreq (s : session) (now : N) : bool :=
  match rt_ping_timeout (s_rt s) with Some _ => false | None => true end
  && match rt_next_ping (s_rt s) with Some d => d <=? now | None => false end
  && negb (has_pending_pingreq (s_ob s)).

Definition maybe_queue_pingreq (s : session) (now : N) : session * option err :=
  if should_queue_pingreq s now then
    match check_control_size (rt_mps (s_rt s)) CPing with
    | Some e => (s, Some e)
    | None =>
        match queue_control (s_ob s) CPing with
        | None => (s, Some EInflightExhausted)
        | Some o => (set_ob s o, None)
        end
    end
  else (s, None).

Definition ping_timed_out (s : session) (now : N) : bool :=
  match rt_ping_timeout (s_rt s) with Some d => d <=? now | None => false end.
