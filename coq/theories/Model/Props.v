(* Props.v — MQTT 5 properties: kinds, validity table, size, serialize, lazy decode.   [src/properties.rs] *)
From Minimq Require Import Bytes Varint Utf8.

(* The 27 property kinds, in the order of the Rust enum `Property`. *)
Inductive pkind :=
| KPayloadFormatIndicator | KMessageExpiryInterval | KContentType | KResponseTopic | KCorrelationData
| KSubscriptionIdentifier | KSessionExpiryInterval | KAssignedClientIdentifier | KServerKeepAlive
| KAuthenticationMethod | KAuthenticationData | KRequestProblemInformation | KWillDelayInterval
| KRequestResponseInformation | KResponseInformation | KServerReference | KReasonString
| KReceiveMaximum | KTopicAliasMaximum | KTopicAlias | KMaximumQoS | KRetainAvailable | KUserProperty
| KMaximumPacketSize | KWildcardSubscriptionAvailable | KSubscriptionIdentifierAvailable
| KSharedSubscriptionAvailable.

Definition all_kinds : list pkind :=
  [KPayloadFormatIndicator; KMessageExpiryInterval; KContentType; KResponseTopic; KCorrelationData;
   KSubscriptionIdentifier; KSessionExpiryInterval; KAssignedClientIdentifier; KServerKeepAlive;
   KAuthenticationMethod; KAuthenticationData; KRequestProblemInformation; KWillDelayInterval;
   KRequestResponseInformation; KResponseInformation; KServerReference; KReasonString;
   KReceiveMaximum; KTopicAliasMaximum; KTopicAlias; KMaximumQoS; KRetainAvailable; KUserProperty;
   KMaximumPacketSize; KWildcardSubscriptionAvailable; KSubscriptionIdentifierAvailable;
   KSharedSubscriptionAvailable].

(* wire identifier: PropertyIdentifier as u32 *)
Definition kind_id (k : pkind) : N :=
  match k with
  | KPayloadFormatIndicator => 1 | KMessageExpiryInterval => 2 | KContentType => 3
  | KResponseTopic => 8 | KCorrelationData => 9 | KSubscriptionIdentifier => 11
  | KSessionExpiryInterval => 17 | KAssignedClientIdentifier => 18 | KServerKeepAlive => 19
  | KAuthenticationMethod => 21 | KAuthenticationData => 22 | KRequestProblemInformation => 23
  | KWillDelayInterval => 24 | KRequestResponseInformation => 25 | KResponseInformation => 26
  | KServerReference => 28 | KReasonString => 31 | KReceiveMaximum => 33 | KTopicAliasMaximum => 34
  | KTopicAlias => 35 | KMaximumQoS => 36 | KRetainAvailable => 37 | KUserProperty => 38
  | KMaximumPacketSize => 39 | KWildcardSubscriptionAvailable => 40
  | KSubscriptionIdentifierAvailable => 41 | KSharedSubscriptionAvailable => 42
  end.

Definition kind_of_id (i : N) : option pkind :=
  find (fun k => N.eqb (kind_id k) i) all_kinds.

(* shape of the value carried by a kind *)
Inductive vshape := ShU8 | ShU16 | ShU32 | ShVar | ShStr | ShBin | ShPair.
Definition kind_shape (k : pkind) : vshape :=
  match k with
  | KPayloadFormatIndicator | KRequestProblemInformation | KRequestResponseInformation | KMaximumQoS
  | KRetainAvailable | KWildcardSubscriptionAvailable | KSubscriptionIdentifierAvailable
  | KSharedSubscriptionAvailable => ShU8
  | KServerKeepAlive | KReceiveMaximum | KTopicAliasMaximum | KTopicAlias => ShU16
  | KMessageExpiryInterval | KSessionExpiryInterval | KWillDelayInterval | KMaximumPacketSize => ShU32
  | KSubscriptionIdentifier => ShVar
  | KContentType | KResponseTopic | KAssignedClientIdentifier | KAuthenticationMethod
  | KResponseInformation | KServerReference | KReasonString => ShStr
  | KCorrelationData | KAuthenticationData => ShBin
  | KUserProperty => ShPair
  end.

(* A property value: numeric kinds use pnum; string/binary kinds use pdata; UserProperty uses pdata, pdata2.
   Well-formedness w.r.t. the Rust types (u8/u16/u32 ranges, &str = valid UTF-8) is `prop_wf`. *)
Record prop := { pk : pkind; pnum : N; pdata : bytes; pdata2 : bytes }.

Definition prop_wf (p : prop) : bool :=
  match kind_shape (pk p) with
  | ShU8 => pnum p <? 256
  | ShU16 => pnum p <? 65536
  | ShU32 | ShVar => pnum p <? 4294967296
  | ShStr => utf8_valid (pdata p) && all_bytes (pdata p)
  | ShBin => all_bytes (pdata p)
  | ShPair => utf8_valid (pdata p) && all_bytes (pdata p) && utf8_valid (pdata2 p) && all_bytes (pdata2 p)
  end.

Inductive pctx := CtxPublish | CtxSubscribe | CtxUnsubscribe | CtxDisconnect | CtxWill.
Definition all_ctx : list pctx := [CtxPublish; CtxSubscribe; CtxUnsubscribe; CtxDisconnect; CtxWill].

(* Property::has_valid_value *)
Definition has_valid_value (p : prop) : bool :=
  match pk p with
  | KPayloadFormatIndicator | KRequestProblemInformation | KRequestResponseInformation
  | KRetainAvailable | KWildcardSubscriptionAvailable | KSubscriptionIdentifierAvailable
  | KSharedSubscriptionAvailable => pnum p <=? 1
  | KMaximumQoS => pnum p <=? 2
  | KSubscriptionIdentifier => (1 <=? pnum p) && (pnum p <=? VARINT_MAX)
  | KTopicAlias => negb (N.eqb (pnum p) 0)
  | _ => true
  end.

(* the (context, identifier) table of Property::is_valid_for *)
Definition kind_valid_for (k : pkind) (c : pctx) : bool :=
  match c, k with
  | (CtxPublish | CtxWill),
    (KPayloadFormatIndicator | KMessageExpiryInterval | KContentType | KResponseTopic
     | KCorrelationData | KUserProperty) => true
  | CtxPublish, KTopicAlias => true
  | CtxWill, KWillDelayInterval => true
  | CtxSubscribe, (KSubscriptionIdentifier | KUserProperty) => true
  | CtxUnsubscribe, KUserProperty => true
  | CtxDisconnect, (KSessionExpiryInterval | KReasonString | KUserProperty | KServerReference) => true
  | _, _ => false
  end.

Definition is_valid_for (p : prop) (c : pctx) : bool :=
  has_valid_value p && kind_valid_for (pk p) c.

(* Property::size *)
Definition prop_size (p : prop) : N :=
  let idl := varint_len (kind_id (pk p)) in
  match kind_shape (pk p) with
  | ShStr | ShBin => lenN (pdata p) + 2 + idl
  | ShPair => (lenN (pdata2 p) + 2) + (lenN (pdata p) + 2) + idl
  | ShVar => varint_len (pnum p) + idl
  | ShU32 => 4 + idl
  | ShU16 => 2 + idl
  | ShU8 => 1 + idl
  end.

(* Serialization results: the serializer either appends bytes or fails with Custom
   (string/binary longer than 65535, varint out of range).  InsufficientMemory is decided by Ser.v. *)
Definition len_prefixed (d : bytes) : option bytes :=
  if 65535 <? lenN d then None else Some (u16_be (lenN d) ++ d).

Definition prop_encode (p : prop) : option bytes :=
  match varint_write (kind_id (pk p)) with
  | None => None
  | Some idb =>
      match kind_shape (pk p) with
      | ShU8 => Some (idb ++ [pnum p])
      | ShU16 => Some (idb ++ u16_be (pnum p))
      | ShU32 => Some (idb ++ u32_be (pnum p))
      | ShVar => match varint_write (pnum p) with Some v => Some (idb ++ v) | None => None end
      | ShStr | ShBin => match len_prefixed (pdata p) with Some d => Some (idb ++ d) | None => None end
      | ShPair =>
          match len_prefixed (pdata p), len_prefixed (pdata2 p) with
          | Some a, Some b => Some (idb ++ a ++ b)
          | _, _ => None
          end
      end
  end.

(* what the serializer is handed for one property: the whole encoding when every field is encodable; otherwise the
   identifier (and, for a pair, its first string) go out before the failing field raises the custom error — so
   that a buffer too small for the identifier already fails with the memory error, as the Rust serializer does *)
Definition prop_chunks (p : prop) : list (option bytes) :=
  match prop_encode p with
  | Some bs => [Some bs]
  | None =>
      match varint_write (kind_id (pk p)) with
      | None => [None]
      | Some idb =>
          match kind_shape (pk p) with
          | ShPair => match len_prefixed (pdata p) with
                      | Some a => [Some idb; Some a; None]
                      | None => [Some idb; None]
                      end
          | _ => [Some idb; None]
          end
      end
  end.

(* The three representations of `Properties`. *)
Inductive properties :=
| PSlice (ps : list prop)
| PEncoded (block : bytes)
| PWithCorr (corr : prop) (ps : list prop).

Definition props_size (ps : properties) : N :=
  match ps with
  | PSlice l => sumN (map prop_size l)
  | PWithCorr c l => sumN (map prop_size l) + prop_size c
  | PEncoded b => lenN b
  end.

(* ---------- lazy decoding of an encoded block (PropertiesIter, Encoded arm) ---------- *)

(* One Property::deserialize on a deserializer over `l`: result and number of bytes consumed
   (deserialized_bytes, also on error: the bytes popped before the error was detected). *)
Inductive pdec := PDOk (p : prop) (used : N) | PDErr (used : N).

Definition take_exact (n : N) (l : bytes) : option (bytes * bytes) :=
  if lenN l <? n then None else Some (takeN n l, dropN n l).

(* read_u16 pops byte by byte: consumption on failure is what was available (0 or 1) *)
Definition read_u16 (l : bytes) : option (N * bytes) :=
  match l with
  | a :: b :: t => Some (a * 256 + b, t)
  | _ => None
  end.

(* deserialize_str / deserialize_bytes with u16 prefix: (data, rest, consumed) or error with consumed *)
Inductive fres := FOk (d : bytes) (rest : bytes) (used : N) | FErr (used : N).
Definition read_field (is_str : bool) (l : bytes) : fres :=
  match read_u16 l with
  | None => FErr (lenN l)          (* pop failed after consuming what was there (0 or 1 byte) *)
  | Some (n, t) =>
      match take_exact n t with
      | None => FErr 2
      | Some (d, rest) =>
          if is_str && negb (utf8_valid d) then FErr (2 + n) else FOk d rest (2 + n)
      end
  end.

(* number of bytes a failing/succeeding varint read consumed *)
Definition varint_consumed (l : bytes) : N :=
  match varint_read l with
  | VOk _ rest => lenN l - lenN rest
  | VErrShort => lenN l
  | VErrBad =>
      (* bytes popped until the offending byte inclusive: first byte without continuation within 4, else 4 *)
      let fix go (cnt : nat) (l : bytes) (acc : N) : N :=
        match cnt, l with
        | O, _ => acc
        | _, [] => acc
        | S c, b :: t => if b <? 128 then acc + 1 else go c t (acc + 1)
        end in
      go 4%nat l 0
  end.

Definition mkprop (k : pkind) (n : N) (d d2 : bytes) : prop := {| pk := k; pnum := n; pdata := d; pdata2 := d2 |}.

Definition prop_decode (l : bytes) : pdec :=
  match varint_read l with
  | VErrShort | VErrBad => PDErr (varint_consumed l)
  | VOk id rest =>
      let c0 := lenN l - lenN rest in
      match kind_of_id id with
      | None => PDErr c0
      | Some k =>
          match kind_shape k with
          | ShU8 => match rest with b :: _ => PDOk (mkprop k b [] []) (c0 + 1) | [] => PDErr c0 end
          | ShU16 =>
              match read_u16 rest with
              | Some (v, _) => PDOk (mkprop k v [] []) (c0 + 2)
              | None => PDErr (c0 + lenN rest)
              end
          | ShU32 =>
              match rest with
              | a :: b :: c :: d :: _ => PDOk (mkprop k (((a * 256 + b) * 256 + c) * 256 + d) [] []) (c0 + 4)
              | _ => PDErr c0        (* try_take_n(4) fails without consuming *)
              end
          | ShVar =>
              match varint_read rest with
              | VOk v r2 => PDOk (mkprop k v [] []) (c0 + (lenN rest - lenN r2))
              | _ => PDErr (c0 + varint_consumed rest)
              end
          | ShStr =>
              match read_field true rest with
              | FOk d _ u => PDOk (mkprop k 0 d []) (c0 + u)
              | FErr u => PDErr (c0 + u)
              end
          | ShBin =>
              match read_field false rest with
              | FOk d _ u => PDOk (mkprop k 0 d []) (c0 + u)
              | FErr u => PDErr (c0 + u)
              end
          | ShPair =>
              match read_field true rest with
              | FErr u => PDErr (c0 + u)
              | FOk d r2 u =>
                  match read_field true r2 with
                  | FOk d2 _ u2 => PDOk (mkprop k 0 d d2) (c0 + u + u2)
                  | FErr u2 => PDErr (c0 + u + u2)
                  end
              end
          end
      end
  end.

(* The iterator: a list of items (Some p = Ok p, None = Err).  Each step consumes >= 1 byte. *)
Fixpoint props_iter_fuel (fuel : nat) (l : bytes) : list (option prop) :=
  match fuel with
  | O => []
  | S f =>
      match l with
      | [] => []
      | _ =>
          match prop_decode l with
          | PDOk p u => Some p :: props_iter_fuel f (dropN u l)
          | PDErr u => None :: props_iter_fuel f (dropN u l)
          end
      end
  end.
Definition props_iter_encoded (l : bytes) : list (option prop) := props_iter_fuel (length l) l.

Definition props_iter (ps : properties) : list (option prop) :=
  match ps with
  | PSlice l => map Some l
  | PWithCorr c l => Some c :: map Some l
  | PEncoded b => props_iter_encoded b
  end.

(* Properties::valid_for *)
Definition props_valid_for (ps : properties) (c : pctx) : bool :=
  forallb (fun it => match it with Some p => is_valid_for p c | None => false end) (props_iter ps).

(* response_topic / correlation_data: first matching Ok item *)
Fixpoint first_data (k : pkind) (its : list (option prop)) : option bytes :=
  match its with
  | [] => None
  | Some p :: t => if N.eqb (kind_id (pk p)) (kind_id k) then Some (pdata p) else first_data k t
  | None :: t => first_data k t
  end.
Definition response_topic (ps : properties) : option bytes := first_data KResponseTopic (props_iter ps).
Definition correlation_data (ps : properties) : option bytes := first_data KCorrelationData (props_iter ps).

Definition with_properties (self : properties) (l : list prop) : properties :=
  match self with
  | PWithCorr c _ => PWithCorr c l
  | _ => PSlice l
  end.
Definition with_correlation (self : properties) (d : bytes) : properties :=
  let c := mkprop KCorrelationData 0 d [] in
  match self with
  | PSlice l | PWithCorr _ l => PWithCorr c l
  | PEncoded _ => PWithCorr c []
  end.
