(* Parse.v — token-stream (list N) parser for test cases; shared by the vm_compute and the extracted evaluator. *)
From Minimq Require Import Bytes Varint Utf8 Props Ser.

Definition parser (A : Type) := list N -> option (A * list N).

Definition p_ret {A} (a : A) : parser A := fun l => Some (a, l).
Definition p_bind {A B} (p : parser A) (f : A -> parser B) : parser B :=
  fun l => match p l with Some (a, r) => f a r | None => None end.
Notation "x <- p ;; q" := (p_bind p (fun x => q)) (at level 61, p at next level, right associativity).

Definition p_N : parser N := fun l => match l with x :: t => Some (x, t) | [] => None end.
Definition p_bool : parser bool := x <- p_N ;; p_ret (negb (N.eqb x 0)).

Fixpoint p_count {A} (fuel : nat) (p : parser A) (n : N) : parser (list A) :=
  match fuel with
  | O => fun _ => None
  | S f =>
      if N.eqb n 0 then p_ret []
      else x <- p ;; r <- p_count f p (N.pred n) ;; p_ret (x :: r)
  end.
(* a list: count, then the elements; fuel from the remaining input length (every element consumes >= 1) *)
Definition p_list {A} (p : parser A) : parser (list A) :=
  fun l => match l with
           | n :: t => p_count (S (length t)) p n t
           | [] => None
           end.
Definition p_bytes : parser bytes := p_list p_N.
Definition p_opt {A} (p : parser A) : parser (option A) :=
  t <- p_N ;; if N.eqb t 0 then p_ret None else x <- p ;; p_ret (Some x).

Definition p_kind : parser pkind :=
  i <- p_N ;; fun l => match nth_error all_kinds (N.to_nat i) with Some k => Some (k, l) | None => None end.
Definition p_prop : parser prop :=
  k <- p_kind ;; n <- p_N ;; d <- p_bytes ;; d2 <- p_bytes ;; p_ret (mkprop k n d d2).
Definition p_ctx : parser pctx :=
  i <- p_N ;; fun l => match nth_error all_ctx (N.to_nat i) with Some c => Some (c, l) | None => None end.
Definition p_qos : parser qos :=
  i <- p_N ;; fun l => match qos_of_n i with Some q => Some (q, l) | None => None end.

(* properties: 0 = slice, 1 = with correlation (corr bytes first) *)
Definition p_properties : parser properties :=
  t <- p_N ;;
  if N.eqb t 0 then (l <- p_list p_prop ;; p_ret (PSlice l))
  else (c <- p_bytes ;; l <- p_list p_prop ;; p_ret (PWithCorr (mkprop KCorrelationData 0 c []) l)).

Definition p_will : parser will :=
  t <- p_bytes ;; d <- p_bytes ;; q <- p_qos ;; r <- p_bool ;; ps <- p_list p_prop ;;
  p_ret {| w_topic := t; w_data := d; w_qos := q; w_retain := r; w_props := ps |}.
Definition p_auth : parser auth :=
  u <- p_bytes ;; p <- p_bytes ;; p_ret {| a_user := u; a_pass := p |}.

Definition p_connect_req : parser connect_req :=
  ka <- p_N ;; ps <- p_list p_prop ;; cid <- p_bytes ;; a <- p_opt p_auth ;; w <- p_opt p_will ;; c <- p_bool ;;
  p_ret {| cq_keepalive := ka; cq_props := ps; cq_client_id := cid; cq_auth := a; cq_will := w; cq_clean := c |}.

Definition p_publish_req : parser publish_req :=
  t <- p_bytes ;; pid <- p_opt p_N ;; ps <- p_properties ;; r <- p_bool ;; q <- p_qos ;; d <- p_bool ;; pl <- p_bytes ;;
  p_ret {| pq_topic := t; pq_pid := pid; pq_props := ps; pq_retain := r; pq_qos := q; pq_dup := d; pq_payload := pl |}.

Definition p_sub_topic : parser (bytes * sub_opts) :=
  t <- p_bytes ;; q <- p_qos ;; nl <- p_bool ;; rap <- p_bool ;; rh <- p_N ;;
  p_ret (t, {| so_qos := q; so_no_local := nl; so_rap := rap; so_rh := rh |}).
Definition p_subscribe_req : parser subscribe_req :=
  pid <- p_N ;; ps <- p_list p_prop ;; ts <- p_list p_sub_topic ;;
  p_ret {| sq_pid := pid; sq_props := ps; sq_topics := ts |}.
Definition p_unsubscribe_req : parser unsubscribe_req :=
  pid <- p_N ;; ps <- p_list p_prop ;; ts <- p_list p_bytes ;;
  p_ret {| uq_pid := pid; uq_props := ps; uq_topics := ts |}.
Definition p_disconnect_req : parser disconnect_req :=
  r <- p_opt p_N ;; ps <- p_opt (p_list p_prop) ;;
  (* Disconnect::with_properties: attaching properties to a reason-less DISCONNECT sets ReasonCode::Success *)
  p_ret {| dq_reason := match r, ps with None, Some _ => Some 0 | _, _ => r end; dq_props := ps |}.
