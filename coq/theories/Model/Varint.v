(* Varint.v — MQTT variable byte integers.                      [src/varint.rs, src/de/packet_reader.rs] *)
From Minimq Require Import Bytes.

Definition VARINT_MAX : N := 268435455.   (* 0x0FFF_FFFF *)

(* Varint::encoded_len *)
Definition varint_len (v : N) : N :=
  if v <=? 127 then 1 else if v <=? 16383 then 2 else if v <=? 2097151 then 3 else 4.

(* write_mqtt_u32_varint: None when value > MQTT_VARINT_MAX.  At most 4 iterations. *)
Fixpoint varint_write_fuel (fuel : nat) (v : N) : bytes :=
  match fuel with
  | O => []
  | S f =>
      let b := v mod 128 in
      let v' := v / 128 in
      if N.eqb v' 0 then [b] else (b + 128) :: varint_write_fuel f v'
  end.
Definition varint_write (v : N) : option bytes :=
  if VARINT_MAX <? v then None else Some (varint_write_fuel 4 v).

(* read_mqtt_u32_varint over a byte list: result and the rest.
   VErrShort = the reader ran out of bytes (the `read` closure failed);
   VErrBad   = `invalid()`.                                              *)
Inductive vres := VOk (v : N) (rest : bytes) | VErrShort | VErrBad.

Fixpoint varint_read_go (shifts : list N) (value : N) (l : bytes) : vres :=
  match shifts with
  | [] => VErrBad
  | shift :: more =>
      match l with
      | [] => VErrShort
      | b :: t =>
          let part := b mod 128 in
          let value' := value + part * 2 ^ shift in
          if b <? 128 then
            if negb (N.eqb shift 0) && N.eqb part 0 then VErrBad else VOk value' t
          else varint_read_go more value' t
      end
  end.
Definition varint_read (l : bytes) : vres := varint_read_go [0; 7; 14; 21] 0 l.

(* PacketReader::probe_fixed_header's own, laxer length scan over buffer[1..read_bytes] (at most 4 bytes):
   Some (header_size + remaining_length) once a byte without continuation bit is seen. *)
Fixpoint probe_go (idx : N) (cnt : nat) (acc : N) (l : bytes) : option N :=
  match cnt with
  | O => None
  | S c =>
      match l with
      | [] => None
      | b :: t =>
          let acc' := acc + (b mod 128) * 2 ^ (idx * 7) in
          if b <? 128 then Some (1 + (1 + idx) + acc') else probe_go (idx + 1) c acc' t
      end
  end.
Definition probe_len (after_first : bytes) : option N := probe_go 0 4 0 after_first.
