(* Show.v — canonical text rendering (as ASCII code lists) shared with the Rust hooks, and the
   token-stream parser for test cases.  All output is `list N` so that extraction needs no string support. *)
From Coq Require Import Ascii String.
From Minimq Require Import Bytes Varint Utf8 Props Ser De Reader.

Definition text := list N.

Fixpoint s2t (s : string) : text :=
  match s with
  | EmptyString => []
  | String c r => N_of_ascii c :: s2t r
  end.
Coercion s2t : string >-> text.

Definition digit (d : N) : N := 48 + d.
Fixpoint show_N_fuel (fuel : nat) (n : N) (acc : text) : text :=
  match fuel with
  | O => acc
  | S f => let acc' := digit (n mod 10) :: acc in
           if n <? 10 then acc' else show_N_fuel f (n / 10) acc'
  end.
Definition show_N (n : N) : text := show_N_fuel (S (N.size_nat n)) n [].

Definition hexdig (d : N) : N := if d <? 10 then 48 + d else 87 + d.
Fixpoint hex (l : bytes) : text :=
  match l with [] => [] | b :: t => hexdig (b / 16) :: hexdig (b mod 16) :: hex t end.

Definition show_bool (b : bool) : text := if b then s2t "1" else s2t "0".
Definition show_optN (o : option N) : text := match o with Some n => show_N n | None => s2t "-" end.

Fixpoint join (sep : text) (l : list text) : text :=
  match l with
  | [] => []
  | [x] => x
  | x :: t => x ++ sep ++ join sep t
  end.

Definition show_prop (p : prop) : text :=
  show_N (kind_id (pk p)) ++ s2t ":" ++
  match kind_shape (pk p) with
  | ShU8 | ShU16 | ShU32 | ShVar => show_N (pnum p)
  | ShStr | ShBin => s2t "x" ++ hex (pdata p)
  | ShPair => s2t "x" ++ hex (pdata p) ++ s2t "~" ++ hex (pdata2 p)
  end.

Definition show_item (it : option prop) : text :=
  match it with Some p => show_prop p | None => s2t "E" end.

Definition show_props_block (b : bytes) : text :=
  s2t "x" ++ hex b ++ s2t " iter=[" ++ join (s2t ",") (map show_item (props_iter_encoded b)) ++ s2t "]".

Definition show_packet (p : rpacket) : text :=
  match p with
  | RConnAck sp rc ps =>
      s2t "CONNACK sp=" ++ show_bool sp ++ s2t " rc=" ++ show_N rc ++ s2t " props=" ++ show_props_block ps
  | RPublish topic pid q r d ps payload =>
      s2t "PUBLISH topic=x" ++ hex topic ++ s2t " pid=" ++ show_optN pid ++ s2t " qos=" ++ show_N (qos_n q)
      ++ s2t " retain=" ++ show_bool r ++ s2t " dup=" ++ show_bool d ++ s2t " payload=x" ++ hex payload
      ++ s2t " props=" ++ show_props_block ps
  | RPubAck pid rc => s2t "PUBACK pid=" ++ show_N pid ++ s2t " rc=" ++ show_N rc
  | RPubRec pid rc => s2t "PUBREC pid=" ++ show_N pid ++ s2t " rc=" ++ show_N rc
  | RPubRel pid rc => s2t "PUBREL pid=" ++ show_N pid ++ s2t " rc=" ++ show_N rc
  | RPubComp pid rc => s2t "PUBCOMP pid=" ++ show_N pid ++ s2t " rc=" ++ show_N rc
  | RSubAck pid ps codes =>
      s2t "SUBACK pid=" ++ show_N pid ++ s2t " codes=x" ++ hex codes ++ s2t " props=" ++ show_props_block ps
  | RUnsubAck pid ps codes =>
      s2t "UNSUBACK pid=" ++ show_N pid ++ s2t " codes=x" ++ hex codes ++ s2t " props=" ++ show_props_block ps
  | RDisconnect rc ps =>
      s2t "DISCONNECT rc=" ++ show_N rc ++ s2t " props=" ++
      match ps with Some b => show_props_block b | None => s2t "none" end
  | RPingResp => s2t "PINGRESP"
  end.

Definition show_decode (buf : bytes) : text :=
  match from_buffer buf with Some p => show_packet p | None => s2t "ERR" end.

Definition show_sres (r : sres) : text :=
  match r with
  | SOk off b => s2t "OK off=" ++ show_N off ++ s2t " x" ++ hex b
  | SErr EMem => s2t "ERR mem"
  | SErr ECustom => s2t "ERR custom"
  | SErr EPay => s2t "ERR payload"
  end.

(* verif::reader_run *)
Definition show_reader_end (r : reader) : text :=
  s2t "end rb=" ++ show_N (read_bytes r) ++ s2t " pl=" ++ show_optN (rplen r).

Fixpoint reader_run_fuel (fuel : nat) (r : reader) (input : bytes) (frags : list N) (acc : text) : text :=
  match fuel with
  | O => acc ++ s2t "FUEL"
  | S f =>
      if packet_available r then
        match take_packet r with
        | Some (r', pl, Some p) =>
            reader_run_fuel f r' input frags (acc ++ s2t "pkt " ++ show_N pl ++ s2t " " ++ show_packet p ++ s2t ";")
        | Some (r', pl, None) => reader_run_fuel f r' input frags (acc ++ s2t "pkt ERR;")
        | None => acc ++ s2t "pkt NONE;"
        end
      else
        match receive_buffer r with
        | (r', None) => acc ++ s2t "win ERR;" ++ show_reader_end r'
        | (r', Some w) =>
            let acc' := acc ++ s2t "win " ++ show_N w ++ s2t ";" in
            if N.eqb w 0 || N.eqb (lenN input) 0 then acc' ++ show_reader_end r'
            else
              let req := match frags with x :: _ => x | [] => 1 end in
              let cnt := N.min (N.min (N.max req 1) w) (lenN input) in
              reader_run_fuel f (commit r' (takeN cnt input)) (dropN cnt input) (tl frags) acc'
        end
  end.
Definition show_reader_run (rx : N) (input : bytes) (frags : list N) : text :=
  reader_run_fuel (2 * length input + 4) (reader_new rx) input frags [].
