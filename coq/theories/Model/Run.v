(* Run.v — programs (lists of application-level actions), the deterministic runner and the canonical trace. *)
From Coq Require Import String.
From Minimq Require Import Bytes Varint Utf8 Props Ser De Reader Arena Core Show Machine Parse.

Inductive action :=
| AConnect (chunks : list (N * bytes))           (* new transport; inbound chunks (delay, bytes) already scheduled *)
| APublish (r : pub_req)
| ASubscribe (topics : list (bytes * sub_opts)) (ps : list prop)
| AUnsubscribe (topics : list bytes) (ps : list prop)
| ADisconnect (d : disconnect_req)
| ADrive | APoll | ARecv
| AFeed (delay : N) (bs : bytes)
| AAdvance (dt : N)
| ADropConn
| AHandleDisconnect
| ASetBroker (mode : N)
| ASetPid (pid : N)
| AHeal.                                  (* from here on the transport behaves: the rest of the script is discarded *)

Record case := { c_cfg : config; c_prog : list action; c_script : list (N * N) }.

Definition FUEL : nat := (100 * 100 * 3)%nat.

(* ---------- rendering ---------- *)
Definition show_err (e : err) : text :=
  match e with
  | ENotReady => s2t "NotReady" | EDisconnected => s2t "Disconnected" | EInvalidRequest => s2t "InvalidRequest"
  | ERejected rc => s2t "Rejected(" ++ show_N rc ++ s2t ")" | EInvalidPacket => s2t "InvalidPacket"
  | EBufferTooSmall => s2t "BufferTooSmall" | EPacketTooLarge => s2t "PacketTooLarge"
  | EInflightExhausted => s2t "InflightExhausted" | ETransport => s2t "Transport" | EWriteZero => s2t "WriteZero"
  | EPayload => s2t "Payload"
  end.

Definition show_sstate (s : sstate) : text :=
  match s with SWrite w => s2t "W" ++ show_N w | SFlush => s2t "F" | SSent => s2t "S" end.

Definition show_caction (a : caction) : text :=
  match a with
  | CPubAck p r => s2t "A" ++ show_N p ++ s2t ":" ++ show_N r ++ s2t ":"
  | CPubRec p r => s2t "R" ++ show_N p ++ s2t ":" ++ show_N r ++ s2t ":"
  | CPubComp p r => s2t "C" ++ show_N p ++ s2t ":" ++ show_N r ++ s2t ":"
  | CPing => s2t "P:"
  end.

Definition show_rentry (o : outbound) (e : rentry) : text :=
  show_N (re_pid e) ++ s2t ":" ++ show_N (re_off e) ++ s2t ":" ++ show_N (re_len e) ++ s2t ":"
  ++ show_sstate (re_st e) ++ s2t ":"
  ++ (if re_off e + re_len e <=? ob_cap o then hex (retained_packet o (re_off e) (re_len e)) else s2t "!").

Definition show_snapshot (s : session) : text :=
  let o := s_ob s in
  let r := s_rt s in
  s2t "cap=" ++ show_N (ob_cap o) ++ s2t " used=" ++ show_N (ob_used o)
  ++ s2t " ret=[" ++ join (s2t ",") (map (show_rentry o) (ob_ret o))
  ++ s2t "] ctl=[" ++ join (s2t ",") (map (fun e => show_caction (ce_act e) ++ show_sstate (ce_st e)) (ob_ctl o))
  ++ s2t "] rel=[" ++ join (s2t ",") (map (fun e => show_N (le_pid e) ++ s2t ":" ++ show_N (le_rc e) ++ s2t ":"
                                                      ++ show_sstate (le_st e)) (ob_rel o))
  ++ s2t "] pid=" ++ show_N (s_pid s) ++ s2t " gen=" ++ show_N (s_gen s) ++ s2t " sp=" ++ show_bool (s_sp s)
  ++ s2t " srv=[" ++ join (s2t ",") (map show_N (s_srv s))
  ++ s2t "] quota=" ++ show_N (rt_quota r) ++ s2t " maxquota=" ++ show_N (rt_maxquota r)
  ++ s2t " mps=" ++ show_optN (rt_mps r)
  ++ s2t " maxqos=" ++ match rt_maxqos r with Some q => show_N (qos_n q) | None => s2t "-" end
  ++ s2t " ka=" ++ show_N (rt_ka_ms r) ++ s2t " np=" ++ show_optN (rt_next_ping r)
  ++ s2t " pt=" ++ show_optN (rt_ping_timeout r)
  ++ s2t " resumed=" ++ show_bool (rt_resumed r) ++ s2t " rb=" ++ show_N (read_bytes (s_reader s))
  ++ s2t " pl=" ++ show_optN (rplen (s_reader s)) ++ s2t " cid=" ++ hex (s_client_id s).

Definition show_status (st : opstatus) : text :=
  match st with StPending => s2t "P" | StComplete => s2t "C" | StInvalidated => s2t "I" end.

Definition show_state (w : world) : text :=
  s2t "s " ++ show_snapshot (w_sess w)
  ++ s2t " conn=" ++ show_bool (w_conn w) ++ s2t " live=" ++ show_bool (w_conn w && w_live w)
  ++ s2t " now=" ++ show_N (w_now w)
  ++ s2t " cp=" ++ (if w_conn w then
                      show_bool (w_live w && sess_can_publish (w_sess w) Q0)
                      ++ show_bool (w_live w && sess_can_publish (w_sess w) Q1)
                      ++ show_bool (w_live w && sess_can_publish (w_sess w) Q2)
                    else s2t "---")
  ++ s2t " pq=" ++ show_bool (is_quiescent (s_ob (w_sess w)))
  ++ s2t " ev=" ++ (if w_conn w then show_N (w_event w) else s2t "-")
  ++ s2t " h=[" ++ join (s2t ",") (map (fun o => show_status (status (w_sess w) o)) (w_handles w)) ++ s2t "]".

Definition show_msg (p : rpacket) : text :=
  match p with
  | RPublish topic _ q r _ ps payload =>
      s2t "msg t=x" ++ hex topic ++ s2t " p=x" ++ hex payload ++ s2t " q=" ++ show_N (qos_n q)
      ++ s2t " r=" ++ show_bool r ++ s2t " props=" ++ show_props_block ps
  | _ => s2t "msg ?"
  end.

Definition show_op (o : op) : text :=
  s2t "op " ++ show_N (op_kind o) ++ s2t " " ++ show_N (op_pid o) ++ s2t " " ++ show_N (op_gen o).

Definition show_outcome {A} (f : A -> text) (o : outcome A) : text :=
  s2t "= " ++
  match o with
  | ODone a => s2t "ok " ++ f a
  | OFail e => s2t "err " ++ show_err e
  | OCancel => s2t "cancelled"
  | OFuel => s2t "FUEL"
  | OPanic => s2t "PANIC"
  end.

(* ---------- the runner ---------- *)
Definition feed (w : world) (delay : N) (bs : bytes) : world :=
  let t := N.max (w_now w + delay) (w_last_arrival w) in
  match bs with
  | [] => w
  | _ => upd_inq w (w_inq w ++ [(t, bs)]) t
  end.

Definition noconn (w : world) : world := upd_log w (s2t "= noconn").

Definition record_op (w : world) (o : outcome (option op)) : world :=
  match o with
  | ODone (Some h) => upd_handles w (w_handles w ++ [h])
  | _ => w
  end.

Definition run_action (a : action) (w : world) : world :=
  match a with
  | AConnect chunks =>
      (* the previous handle (if any) is dropped; a new transport is supplied *)
      let w0 := upd_poison (upd_wire (upd_txbuf (upd_inq (upd_live w false false 0) [] (w_now w)) []) []) false in
      let w1 := fold_left (fun w c => feed w (fst c) (snd c)) chunks w0 in
      let '(w2, r) := op_connect FUEL w1 in
      let w3 := match r with
                | ODone ev => upd_live w2 true true ev
                | _ => upd_live w2 false false 0
                end in
      upd_log w3 (show_outcome (fun ev => if N.eqb ev 0 then s2t "connected" else s2t "reconnected") r)
  | APublish r =>
      if negb (w_conn w) then noconn w else
      let '(w1, o) := op_publish FUEL r w in
      upd_log (record_op w1 o) (show_outcome (fun x => match x with Some h => show_op h | None => s2t "none" end) o)
  | ASubscribe ts ps =>
      if negb (w_conn w) then noconn w else
      let '(w1, o) := op_subscribe FUEL ts ps w in
      upd_log (record_op w1 o) (show_outcome (fun x => match x with Some h => show_op h | None => s2t "none" end) o)
  | AUnsubscribe ts ps =>
      if negb (w_conn w) then noconn w else
      let '(w1, o) := op_unsubscribe FUEL ts ps w in
      upd_log (record_op w1 o) (show_outcome (fun x => match x with Some h => show_op h | None => s2t "none" end) o)
  | ADisconnect d =>
      if negb (w_conn w) then noconn w else
      let '(w1, o) := op_disconnect FUEL d w in
      upd_log w1 (show_outcome (fun _ => s2t "done") o)
  | ADrive =>
      if negb (w_conn w) then noconn w else
      let '(w1, o) := op_drive FUEL w in
      upd_log w1 (show_outcome (fun x => match x with Some p => show_msg p | None => s2t "none" end) o)
  | APoll =>
      if negb (w_conn w) then noconn w else
      let '(w1, o) := op_poll FUEL w in
      upd_log w1 (show_outcome (fun x => match x with Some p => show_msg p | None => s2t "none" end) o)
  | ARecv =>
      if negb (w_conn w) then noconn w else
      let '(w1, o) := op_recv FUEL w in
      upd_log w1 (show_outcome (fun x => match x with Some p => show_msg p | None => s2t "none" end) o)
  | AFeed delay bs => upd_log (feed w delay bs) (s2t "= fed")
  | AAdvance dt => upd_log (upd_now w (w_now w + dt)) (s2t "= t " ++ show_N (w_now w + dt))
  | ADropConn => upd_log (upd_live w false false 0) (s2t "= dropped")
  | AHandleDisconnect =>
      if negb (w_conn w) then noconn w else upd_log (w_hd w) (s2t "= hd")
  | ASetBroker m => upd_log (upd_broker w m) (s2t "= broker")
  | ASetPid p =>
      (* the hook needs &mut Session: it is only applied while no connection handle borrows the session *)
      if w_conn w then upd_log w (s2t "= pid") else
      let p16 := p mod 65536 in
      upd_log (upd_sess w (set_pid (w_sess w) (if N.eqb p16 0 then 1 else p16))) (s2t "= pid")
  | AHeal => upd_log (upd_script w []) (s2t "= healed")
  end.

Definition halted (w : world) : bool :=
  match w_log w with
  | l :: _ => list_eqb l (s2t "= PANIC") || list_eqb l (s2t "= FUEL")
  | [] => false
  end.

(* after a panic (or fuel exhaustion) nothing further is observed *)
Definition action_code (a : action) : N :=
  match a with
  | AConnect _ => 0 | APublish _ => 1 | ASubscribe _ _ => 2 | AUnsubscribe _ _ => 3 | ADisconnect _ => 4
  | ADrive => 5 | APoll => 6 | ARecv => 7 | AFeed _ _ => 8 | AAdvance _ => 9 | ADropConn => 10
  | AHandleDisconnect => 11 | ASetBroker _ => 12 | ASetPid _ => 13 | AHeal => 14
  end.

Definition step_action (w : world) (a : action) : world :=
  if halted w then w else
  let marker := s2t "#" ++ show_N (action_code a)
                ++ match a with APublish r => s2t ":" ++ show_N (qos_n (pr_qos r)) | _ => [] end in
  let w1 := run_action a (upd_waits (upd_log w marker) 0) in
  if halted w1 then w1 else upd_log w1 (show_state w1).

Definition init_world (c : case) : world :=
  {| w_sess := session_new (c_cfg c); w_conn := false; w_live := false; w_event := 0; w_now := 0; w_inq := [];
     w_last_arrival := 0; w_txbuf := []; w_script := c_script c; w_broker := 0; w_log := []; w_handles := []; w_waits := 0; w_envok := true; w_wire := []; w_poison := false; w_drained := true |}.

Definition run_case (c : case) : world := fold_left step_action (c_prog c) (init_world c).

Definition show_run (c : case) : text := join (s2t "|") (rev (w_log (run_case c))).

(* ---------- parsing a case from tokens ---------- *)
Definition p_config : parser config :=
  rx <- p_N ;; tx <- p_N ;; cid <- p_bytes ;; ka <- p_N ;; ex <- p_N ;; dg <- p_bool ;;
  wl <- p_opt p_will ;; au <- p_opt p_auth ;;
  p_ret {| cf_rx := rx; cf_tx := tx; cf_client_id := cid; cf_keepalive_s := ka; cf_expiry := ex;
           cf_downgrade := dg; cf_will := wl; cf_auth := au |}.

Definition p_chunk : parser (N * bytes) := d <- p_N ;; b <- p_bytes ;; p_ret (d, b).

Definition p_pub_req : parser pub_req :=
  t <- p_bytes ;; ps <- p_properties ;; q <- p_qos ;; pl <- p_bytes ;; r <- p_bool ;;
  p_ret {| pr_topic := t; pr_props := ps; pr_qos := q; pr_payload := pl; pr_retain := r |}.

Definition p_action : parser action :=
  k <- p_N ;;
  if N.eqb k 0 then (c <- p_list p_chunk ;; p_ret (AConnect c))
  else if N.eqb k 1 then (r <- p_pub_req ;; p_ret (APublish r))
  else if N.eqb k 2 then (ps <- p_list p_prop ;; ts <- p_list p_sub_topic ;; p_ret (ASubscribe ts ps))
  else if N.eqb k 3 then (ps <- p_list p_prop ;; ts <- p_list p_bytes ;; p_ret (AUnsubscribe ts ps))
  else if N.eqb k 4 then (d <- p_disconnect_req ;; p_ret (ADisconnect d))
  else if N.eqb k 5 then p_ret ADrive
  else if N.eqb k 6 then p_ret APoll
  else if N.eqb k 7 then p_ret ARecv
  else if N.eqb k 8 then (d <- p_N ;; b <- p_bytes ;; p_ret (AFeed d b))
  else if N.eqb k 9 then (d <- p_N ;; p_ret (AAdvance d))
  else if N.eqb k 10 then p_ret ADropConn
  else if N.eqb k 11 then p_ret AHandleDisconnect
  else if N.eqb k 12 then (m <- p_N ;; p_ret (ASetBroker m))
  else if N.eqb k 13 then (p <- p_N ;; p_ret (ASetPid p))
  else if N.eqb k 14 then p_ret AHeal
  else fun _ => None.

Definition p_ev : parser (N * N) := k <- p_N ;; a <- p_N ;; p_ret (k, a).

Definition p_case : parser case :=
  cfg <- p_config ;; prog <- p_list p_action ;; sc <- p_list p_ev ;;
  p_ret {| c_cfg := cfg; c_prog := prog; c_script := sc |}.
