(* Reply.v — the request/reply helpers of InboundPublish.          [src/mqtt_client/mod.rs, src/publication.rs] *)
From Minimq Require Import Bytes Varint Utf8 Props Ser De.

Record reply_pub := { rp_topic : bytes; rp_props : properties }.

(* InboundPublish::reply: a publication to the first Response Topic carrying the first Correlation Data *)
Definition reply (inbound : properties) : option reply_pub :=
  match response_topic inbound with
  | None => None
  | Some t =>
      Some {| rp_topic := t;
              rp_props := match correlation_data inbound with
                          | Some c => with_correlation (PSlice []) c
                          | None => PSlice []
                          end |}
  end.

(* Publication::properties(user) on the reply *)
Definition reply_with (inbound : properties) (user : list prop) : option reply_pub :=
  match reply inbound with
  | None => None
  | Some r => Some {| rp_topic := rp_topic r; rp_props := with_properties (rp_props r) user |}
  end.

(* InboundPublish::reply_owned::<T, C>: a fixed-capacity copy, or an error - never a truncated copy *)
Inductive owned := OwnNone | OwnErr | OwnOk (t : bytes) (c : option bytes).
Definition reply_owned (inbound : properties) (T C : N) : owned :=
  match response_topic inbound with
  | None => OwnNone
  | Some t =>
      if T <? lenN t then OwnErr else
      match correlation_data inbound with
      | None => OwnOk t None
      | Some c => if C <? lenN c then OwnErr else OwnOk t (Some c)
      end
  end.

(* OwnedResponseTarget::publication(payload) followed by Publication::properties(user): built from the copy alone *)
Definition owned_publication (t : bytes) (c : option bytes) (user : list prop) : reply_pub :=
  {| rp_topic := t;
     rp_props := with_properties (match c with
                                  | Some c => with_correlation (PSlice []) c
                                  | None => PSlice []
                                  end) user |}.
