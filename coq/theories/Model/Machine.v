(* Machine.v — the asynchronous operations with their await points made explicit.
   Every `.await` of the Rust code is a call to io_write / io_flush / io_read, whose outcome is decided by the
   script (all nondeterminism of transport, broker timing and cancellation lives there); the code between two
   awaits is a pure function of Core.v.  [src/mqtt_client/session/{drive,operations,handshake}.rs,
   src/mqtt_client/outbound.rs write_all/write_packet] *)
From Coq Require Import String.
From Minimq Require Import Bytes Varint Utf8 Props Ser De Reader Arena Core Show.

Record world := {
  w_sess : session;
  w_conn : bool;                 (* a Connection handle exists *)
  w_live : bool;                 (* its `live` flag *)
  w_event : N;                   (* 0 = Connected, 1 = Reconnected *)
  w_now : N;                     (* virtual clock, ms *)
  w_inq : list (N * bytes);      (* inbound chunks not yet read: (arrival time, bytes), ordered by time *)
  w_last_arrival : N;
  w_txbuf : bytes;               (* bytes accepted on this transport not yet consumed by the automatic broker *)
  w_script : list (N * N);       (* (kind, amount): 0 ok, 1 fail, 2 zero/eof, 3 pending -> future dropped *)
  w_broker : N;                  (* 0 = manual, 1 = automatic acknowledgements *)
  w_log : list text;             (* most recent first *)
  w_handles : list op;
  w_waits : N;                   (* time advances spent waiting inside the current operation *)
  w_envok : bool;                (* ghost: every resumed CONNACK so far left room for the publishes carried over *)
  w_wire : bytes;                (* ghost: every byte the current transport has accepted, in order *)
  w_poison : bool;               (* ghost: an operation that is not cancel-safe (QoS 0 publish, disconnect) was dropped
                                    in the middle of its packet, or disconnect() ran while a queued packet was half
                                    written — the two ways a packet can start inside another one (C01 K01b/K01c) *)
  w_drained : bool               (* ghost: every inbound packet handled so far met an outbound side with nothing left
                                    to write (next_step = None): the client drains before it reads (C04) *) }.

Definition upd_sess (w : world) (s : session) : world :=
  {| w_sess := s; w_conn := w_conn w; w_live := w_live w; w_event := w_event w; w_now := w_now w; w_inq := w_inq w;
     w_last_arrival := w_last_arrival w; w_txbuf := w_txbuf w; w_script := w_script w; w_broker := w_broker w;
     w_log := w_log w; w_handles := w_handles w; w_waits := w_waits w; w_envok := w_envok w; w_wire := w_wire w; w_poison := w_poison w; w_drained := w_drained w |}.
Definition upd_live (w : world) (conn live : bool) (ev : N) : world :=
  {| w_sess := w_sess w; w_conn := conn; w_live := live; w_event := ev; w_now := w_now w; w_inq := w_inq w;
     w_last_arrival := w_last_arrival w; w_txbuf := w_txbuf w; w_script := w_script w; w_broker := w_broker w;
     w_log := w_log w; w_handles := w_handles w; w_waits := w_waits w; w_envok := w_envok w; w_wire := w_wire w; w_poison := w_poison w; w_drained := w_drained w |}.
Definition upd_log (w : world) (l : text) : world :=
  {| w_sess := w_sess w; w_conn := w_conn w; w_live := w_live w; w_event := w_event w; w_now := w_now w; w_inq := w_inq w;
     w_last_arrival := w_last_arrival w; w_txbuf := w_txbuf w; w_script := w_script w; w_broker := w_broker w;
     w_log := l :: w_log w; w_handles := w_handles w; w_waits := w_waits w; w_envok := w_envok w; w_wire := w_wire w; w_poison := w_poison w; w_drained := w_drained w |}.
Definition upd_script (w : world) (sc : list (N * N)) : world :=
  {| w_sess := w_sess w; w_conn := w_conn w; w_live := w_live w; w_event := w_event w; w_now := w_now w; w_inq := w_inq w;
     w_last_arrival := w_last_arrival w; w_txbuf := w_txbuf w; w_script := sc; w_broker := w_broker w;
     w_log := w_log w; w_handles := w_handles w; w_waits := w_waits w; w_envok := w_envok w; w_wire := w_wire w; w_poison := w_poison w; w_drained := w_drained w |}.
Definition upd_now (w : world) (t : N) : world :=
  {| w_sess := w_sess w; w_conn := w_conn w; w_live := w_live w; w_event := w_event w; w_now := t; w_inq := w_inq w;
     w_last_arrival := w_last_arrival w; w_txbuf := w_txbuf w; w_script := w_script w; w_broker := w_broker w;
     w_log := w_log w; w_handles := w_handles w; w_waits := w_waits w; w_envok := w_envok w; w_wire := w_wire w; w_poison := w_poison w; w_drained := w_drained w |}.
Definition upd_inq (w : world) (q : list (N * bytes)) (last : N) : world :=
  {| w_sess := w_sess w; w_conn := w_conn w; w_live := w_live w; w_event := w_event w; w_now := w_now w; w_inq := q;
     w_last_arrival := last; w_txbuf := w_txbuf w; w_script := w_script w; w_broker := w_broker w;
     w_log := w_log w; w_handles := w_handles w; w_waits := w_waits w; w_envok := w_envok w; w_wire := w_wire w; w_poison := w_poison w; w_drained := w_drained w |}.
Definition upd_txbuf (w : world) (b : bytes) : world :=
  {| w_sess := w_sess w; w_conn := w_conn w; w_live := w_live w; w_event := w_event w; w_now := w_now w; w_inq := w_inq w;
     w_last_arrival := w_last_arrival w; w_txbuf := b; w_script := w_script w; w_broker := w_broker w;
     w_log := w_log w; w_handles := w_handles w; w_waits := w_waits w; w_envok := w_envok w; w_wire := w_wire w; w_poison := w_poison w; w_drained := w_drained w |}.
Definition upd_broker (w : world) (m : N) : world :=
  {| w_sess := w_sess w; w_conn := w_conn w; w_live := w_live w; w_event := w_event w; w_now := w_now w; w_inq := w_inq w;
     w_last_arrival := w_last_arrival w; w_txbuf := w_txbuf w; w_script := w_script w; w_broker := m;
     w_log := w_log w; w_handles := w_handles w; w_waits := w_waits w; w_envok := w_envok w; w_wire := w_wire w; w_poison := w_poison w; w_drained := w_drained w |}.
Definition upd_handles (w : world) (h : list op) : world :=
  {| w_sess := w_sess w; w_conn := w_conn w; w_live := w_live w; w_event := w_event w; w_now := w_now w; w_inq := w_inq w;
     w_last_arrival := w_last_arrival w; w_txbuf := w_txbuf w; w_script := w_script w; w_broker := w_broker w;
     w_log := w_log w; w_handles := h; w_waits := w_waits w; w_envok := w_envok w; w_wire := w_wire w; w_poison := w_poison w; w_drained := w_drained w |}.

Definition upd_waits (w : world) (n : N) : world :=
  {| w_sess := w_sess w; w_conn := w_conn w; w_live := w_live w; w_event := w_event w; w_now := w_now w; w_inq := w_inq w;
     w_last_arrival := w_last_arrival w; w_txbuf := w_txbuf w; w_script := w_script w; w_broker := w_broker w;
     w_log := w_log w; w_handles := w_handles w; w_waits := n; w_envok := w_envok w; w_wire := w_wire w; w_poison := w_poison w; w_drained := w_drained w |}.

Definition upd_envok (w : world) (b : bool) : world :=
  {| w_sess := w_sess w; w_conn := w_conn w; w_live := w_live w; w_event := w_event w; w_now := w_now w; w_inq := w_inq w;
     w_last_arrival := w_last_arrival w; w_txbuf := w_txbuf w; w_script := w_script w; w_broker := w_broker w;
     w_log := w_log w; w_handles := w_handles w; w_waits := w_waits w; w_envok := b; w_wire := w_wire w; w_poison := w_poison w; w_drained := w_drained w |}.

Definition upd_wire (w : world) (b : bytes) : world :=
  {| w_sess := w_sess w; w_conn := w_conn w; w_live := w_live w; w_event := w_event w; w_now := w_now w; w_inq := w_inq w;
     w_last_arrival := w_last_arrival w; w_txbuf := w_txbuf w; w_script := w_script w; w_broker := w_broker w;
     w_log := w_log w; w_handles := w_handles w; w_waits := w_waits w; w_envok := w_envok w; w_wire := b; w_poison := w_poison w; w_drained := w_drained w |}.
Definition upd_poison (w : world) (b : bool) : world :=
  {| w_sess := w_sess w; w_conn := w_conn w; w_live := w_live w; w_event := w_event w; w_now := w_now w; w_inq := w_inq w;
     w_last_arrival := w_last_arrival w; w_txbuf := w_txbuf w; w_script := w_script w; w_broker := w_broker w;
     w_log := w_log w; w_handles := w_handles w; w_waits := w_waits w; w_envok := w_envok w; w_wire := w_wire w; w_poison := b; w_drained := w_drained w |}.

Definition upd_drained (w : world) (b : bool) : world :=
  {| w_sess := w_sess w; w_conn := w_conn w; w_live := w_live w; w_event := w_event w; w_now := w_now w; w_inq := w_inq w;
     w_last_arrival := w_last_arrival w; w_txbuf := w_txbuf w; w_script := w_script w; w_broker := w_broker w;
     w_log := w_log w; w_handles := w_handles w; w_waits := w_waits w; w_envok := w_envok w; w_wire := w_wire w;
     w_poison := w_poison w; w_drained := b |}.

Definition MAX_WAITS : N := 64.        (* an operation that has waited this often is dropped by the application *)
Definition STUTTER_MS : N := 100.      (* re-poll interval while the awaited deadline has already expired *)

(* Connection::handle_disconnect *)
Definition w_hd (w : world) : world :=
  upd_live (upd_sess w (sess_handle_disconnect (w_sess w))) (w_conn w) false (w_event w).

(* ---------- the automatic broker: answers every complete client packet as MQTT 5 prescribes ---------- *)
Definition broker_reply (mode : N) (pkt : bytes) : bytes :=
  match pkt with
  | [] => []
  | h :: t =>
      let typ := h / 16 in
      match varint_read t with
      | VOk _ body =>
          if N.eqb typ 3 then
            let q := (h / 2) mod 4 in
            match read_u16 body with
            | Some (tl, r) =>
                match dropN tl r with
                | a :: b :: _ => if N.eqb q 1 then [64; 2; a; b] else if N.eqb q 2 then [80; 2; a; b] else []
                | _ => []
                end
            | None => []
            end
          else if N.eqb typ 6 then match body with a :: b :: _ => [112; 2; a; b] | _ => [] end
          else if N.eqb typ 8 then match body with a :: b :: _ => [144; 4; a; b; 0; 0] | _ => [] end
          else if N.eqb typ 10 then match body with a :: b :: _ => [176; 4; a; b; 0; 0] | _ => [] end
          else if N.eqb typ 12 then [208; 0]
          else if N.eqb typ 1 && N.eqb mode 2 then
            (* mode 2: a conformant CONNACK — success, session present iff the CONNECT did not ask for a clean start *)
            match dropN 7 body with
            | fl :: _ => [32; 3; (if N.testbit fl 1 then 0 else 1); 0; 0]
            | [] => []
            end
          else []
      | _ => []
      end
  end.

(* split complete packets off the front of a byte stream *)
Fixpoint broker_split (mode : N) (fuel : nat) (buf : bytes) (acc : bytes) : bytes * bytes :=
  match fuel with
  | O => (acc, buf)
  | S f =>
      match buf with
      | [] => (acc, buf)
      | h :: t =>
          match varint_read t with
          | VOk n body =>
              if lenN body <? n then (acc, buf)
              else
                let total := 1 + (lenN t - lenN body) + n in
                broker_split mode f (dropN total buf) (acc ++ broker_reply mode (takeN total buf))
          | VErrShort => (acc, buf)
          | VErrBad => (acc, [])          (* garbage: the broker gives up on this stream *)
          end
      end
  end.

Definition broker_feed (w : world) (accepted : bytes) : world :=
  if N.eqb (w_broker w) 0 then w else
  let buf := w_txbuf w ++ accepted in
  let '(replies, rest) := broker_split (w_broker w) (S (length buf)) buf [] in
  let w1 := upd_txbuf w rest in
  match replies with
  | [] => w1
  | _ => let t := N.max (w_now w1) (w_last_arrival w1) in
         upd_inq w1 (w_inq w1 ++ [(t, replies)]) t
  end.

(* ---------- I/O primitives ---------- *)
Definition next_ev (w : world) : (N * N) * list (N * N) :=
  match w_script w with
  | [] => ((0, 1000000000), [])
  | e :: t => (e, t)
  end.

Inductive wres := WOk (n : N) | WFail | WCancel.
(* kinds 4 and 5: a SLOW write — `amt` ms pass inside the call, then one byte (4) resp. the whole buffer (5) is accepted *)
Definition slow_write (w1 : world) (pre : text) (bs : bytes) (amt n : N) : world * wres :=
  let t := w_now w1 + amt in
  let w2 := upd_log (upd_now w1 t) (s2t "t " ++ show_N t) in
  let acc := takeN n bs in
  (broker_feed (upd_wire (upd_log w2 (pre ++ show_N n ++ s2t " " ++ hex acc)) (w_wire w2 ++ acc)) acc, WOk n).
Definition io_write (bs : bytes) (w : world) : world * wres :=
  let len := lenN bs in
  if N.eqb len 0 then (upd_log w (s2t "w 0 0 "), WOk 0) else
  let '((k, amt), rest) := next_ev w in
  let w1 := upd_script w rest in
  let pre := s2t "w " ++ show_N len ++ s2t " " in
  if N.eqb k 1 then (upd_log w1 (pre ++ s2t "fail"), WFail)
  else if N.eqb k 2 then (upd_log w1 (pre ++ s2t "zero"), WOk 0)
  else if N.eqb k 3 then (upd_log w1 (pre ++ s2t "drop"), WCancel)
  else if N.eqb k 4 then slow_write w1 pre bs amt 1
  else if N.eqb k 5 then slow_write w1 pre bs amt len
  else
    let n := N.min (N.max amt 1) len in
    let acc := takeN n bs in
    (broker_feed (upd_wire (upd_log w1 (pre ++ show_N n ++ s2t " " ++ hex acc)) (w_wire w1 ++ acc)) acc, WOk n).

Inductive flres := FlOk | FlFail | FlCancel.
Definition io_flush (w : world) : world * flres :=
  let '((k, _), rest) := next_ev w in
  let w1 := upd_script w rest in
  if N.eqb k 1 then (upd_log w1 (s2t "f fail"), FlFail)
  else if N.eqb k 3 then (upd_log w1 (s2t "f drop"), FlCancel)
  else (upd_log w1 (s2t "f ok"), FlOk).

(* bytes available at time `now`: whole chunks whose arrival time has passed *)
Fixpoint avail_split (now : N) (q : list (N * bytes)) : bytes * list (N * bytes) :=
  match q with
  | [] => ([], [])
  | (t, b) :: r => if t <=? now then let '(a, r') := avail_split now r in (b ++ a, r') else ([], q)
  end.
Definition next_arrival (q : list (N * bytes)) : option N :=
  match q with [] => None | (t, _) :: _ => Some t end.

Inductive rres := RData (d : bytes) | RFail | RTimeout | RCancel.

(* deliver from what is available now (caller guarantees there is something) *)
Definition deliver (window amt : N) (w : world) : world * rres :=
  let '(av, later) := avail_split (w_now w) (w_inq w) in
  let n := N.min (N.max amt 1) (N.min window (lenN av)) in
  let d := takeN n av in
  let rest := dropN n av in
  let q := match rest with [] => later | _ => (w_now w, rest) :: later end in
  (upd_log (upd_inq w q (w_last_arrival w)) (s2t "r " ++ show_N window ++ s2t " " ++ show_N n ++ s2t " " ++ hex d),
   RData d).

Definition io_read (window : N) (deadline : option N) (w : world) : world * rres :=
  let pre := s2t "r " ++ show_N window ++ s2t " " in
  if N.eqb window 0 then (upd_log w (pre ++ s2t "0 "), RData []) else
  let '((k, amt), rest) := next_ev w in
  if N.eqb k 1 then (upd_log (upd_script w rest) (pre ++ s2t "fail"), RFail)
  else if N.eqb k 2 then (upd_log (upd_script w rest) (pre ++ s2t "eof"), RData [])
  else if N.eqb k 3 then (upd_log (upd_script w rest) (pre ++ s2t "drop"), RCancel)
  else
    let '(av, _) := avail_split (w_now w) (w_inq w) in
    match av with
    | _ :: _ => deliver window amt (upd_script w rest)
    | [] =>
        (* nothing to read now: wait for the next arrival or the deadline, whichever is first (ties: I/O) *)
        let t1 := next_arrival (w_inq w) in
        let target :=
          match deadline with
          | Some d =>
              if d <=? w_now w then Some (w_now w + STUTTER_MS)
              else match t1 with Some t => Some (N.min t d) | None => Some d end
          | None => t1
          end in
        let target := if MAX_WAITS <=? w_waits w then None else target in
        match target with
        | None => (upd_log w (pre ++ s2t "drop"), RCancel)    (* would wait for ever: the application gives up *)
        | Some t =>
            let w1 := upd_log (upd_waits (upd_now w t) (w_waits w + 1)) (s2t "t " ++ show_N t) in
            let '(av1, _) := avail_split t (w_inq w1) in
            match av1 with
            | _ :: _ => deliver window amt (upd_script w1 rest)
            | [] => (upd_log w1 (pre ++ s2t "drop"), RTimeout)
            end
        end
    end.

(* ---------- outcomes ---------- *)
Inductive outcome (A : Type) := ODone (a : A) | OFail (e : err) | OCancel | OFuel | OPanic.
Arguments ODone {A} a.
Arguments OFail {A} e.
Arguments OCancel {A}.
Arguments OFuel {A}.
Arguments OPanic {A}.

(* ghost bookkeeping for C01: a direct write (QoS 0 PUBLISH, DISCONNECT) that stops after some but not all of its
   bytes, with the handle staying live, leaves a partial packet nobody owns *)
Definition mark_partial (before after : world) (len : N) : world :=
  let k := lenN (w_wire after) - lenN (w_wire before) in
  if (0 <? k) && (k <? len) then upd_poison after true else after.

(* write_all (outbound.rs): direct writes of CONNECT, QoS 0 PUBLISH and DISCONNECT *)
Fixpoint write_all (fuel : nat) (bs : bytes) (w : world) : world * outcome unit :=
  match fuel with
  | O => (w, OFuel)
  | S f =>
      match bs with
      | [] => (w, ODone tt)
      | _ =>
          let '(w1, r) := io_write bs w in
          match r with
          | WOk n => if N.eqb n 0 then (w1, OFail EWriteZero) else write_all f (dropN n bs) w1
          | WFail => (w1, OFail ETransport)
          | WCancel => (w1, OCancel)
          end
      end
  end.

(* ---------- the outbound engine ---------- *)
Definition flush_current (p : fpkt) (now : N) (w : world) : world * outcome bool :=
  if negb (w_live w) then (w, OFail EDisconnected) else
  let '(w1, r) := io_flush w in
  match r with
  | FlFail => (w_hd w1, OFail ETransport)
  | FlCancel => (w1, OCancel)
  | FlOk =>
      let '(s, found) := complete_flush (w_sess w1) p now in
      if found then (upd_sess w1 s, ODone true) else (upd_sess w1 s, OPanic)
  end.

Definition perform_outbound_step (st : ostep) (now : N) (w : world) : world * outcome bool :=
  match prepare_step (w_sess w) st with
  | PErr e => (w, OFail e)
  | PDone => (w, ODone false)
  | PFlush p => flush_current p now w
  | PWrite p bs written len =>
      if negb (w_live w) then (w, OFail EDisconnected) else
      let '(w1, r) := io_write (dropN written bs) w in
      match r with
      | WFail => (w_hd w1, OFail ETransport)
      | WCancel => (w1, OCancel)
      | WOk n =>
          if N.eqb n 0 then (w1, OFail EWriteZero) else
          let written' := written + n in
          let '(s, found) := set_written (w_sess w1) p written' len in
          let w2 := upd_sess w1 s in
          if negb found then (w2, OPanic)
          else if written' <? len then (w2, ODone true)
          else flush_current p now w2
      end
  end.

Fixpoint flush_outbound (fuel : nat) (w : world) : world * outcome unit :=
  match fuel with
  | O => (w, OFuel)
  | S f =>
      let now := w_now w in
      let '(s1, e) := maybe_queue_pingreq (w_sess w) now in
      let w1 := upd_sess w s1 in
      match e with
      | Some e => (w1, OFail e)
      | None =>
          match next_step (s_ob (w_sess w1)) with
          | None => (w1, ODone tt)
          | Some st =>
              let '(w2, r) := perform_outbound_step st now w1 in
              match r with
              | ODone _ => flush_outbound f w2
              | OFail e => (w2, OFail e)
              | OCancel => (w2, OCancel)
              | OFuel => (w2, OFuel)
              | OPanic => (w2, OPanic)
              end
          end
      end
  end.

(* process_received_packet: Some p = an inbound publish to deliver *)
Definition process_received (w : world) : world * outcome (option rpacket) :=
  let s := w_sess w in
  if negb (packet_available (s_reader s)) then (w, ODone None) else
  match take_packet (s_reader s) with
  | None => (w, ODone None)
  | Some (r', _, None) => (w_hd (upd_sess w (set_reader s r')), OFail EInvalidPacket)
  | Some (r', _, Some p) =>
      let '(s2, hr) := handle_packet (set_reader s r') p in
      let w2 := upd_drained (upd_envok (upd_sess w s2) (w_envok w && ack_type_ok (set_reader s r') p))
                            (w_drained w && match next_step (s_ob s) with None => true | Some _ => false end) in
      match hr with
      | HOk true => (w2, ODone (Some p))
      | HOk false => (w2, ODone None)
      | HErr EDisconnected => (w_hd w2, OFail EDisconnected)
      | HErr EInvalidPacket => (w_hd w2, OFail EInvalidPacket)
      | HErr EPacketTooLarge => (w_hd w2, OFail EPacketTooLarge)
      | HErr e => (w2, OFail e)
      end
  end.

Inductive progress := PrIdle | PrAdvanced | PrInbound (p : rpacket).

(* service: keep-alive check, then at most one outbound step *)
Definition service (now : N) (w : world) : world * outcome bool :=
  if ping_timed_out (w_sess w) now then (w_hd w, OFail EDisconnected) else
  let '(s1, e) := maybe_queue_pingreq (w_sess w) now in
  let w1 := upd_sess w s1 in
  match e with
  | Some e => (w1, OFail e)
  | None =>
      match next_step (s_ob (w_sess w1)) with
      | None => (w1, ODone false)
      | Some st => perform_outbound_step st now w1
      end
  end.

Fixpoint drive_loop (fuel : nat) (advanced : bool) (w : world) : world * outcome progress :=
  match fuel with
  | O => (w, OFuel)
  | S f =>
      let '(w1, r1) := process_received w in
      match r1 with
      | OFail e => (w1, OFail e)
      | OCancel => (w1, OCancel) | OFuel => (w1, OFuel) | OPanic => (w1, OPanic)
      | ODone (Some p) => (w1, ODone (PrInbound p))
      | ODone None =>
          if packet_available (s_reader (w_sess w)) then drive_loop f true w1 else
          let '(w2, r2) := service (w_now w1) w1 in
          match r2 with
          | OFail e => (w2, OFail e)
          | OCancel => (w2, OCancel) | OFuel => (w2, OFuel) | OPanic => (w2, OPanic)
          | ODone adv =>
              let advanced' := advanced || adv in
              (* the second packet_available check of drive_packet can never fire: no read happened *)
              match next_step (s_ob (w_sess w2)) with
              | None => (w2, ODone (if advanced' then PrAdvanced else PrIdle))
              | Some _ => drive_loop f advanced' w2
              end
          end
      end
  end.

Definition drive_packet (fuel : nat) (w : world) : world * outcome progress :=
  if negb (w_live w) then (w, OFail EDisconnected) else drive_loop fuel false w.

(* fill_packet_reader; `hd` = what the caller does on error (Connection- or Session-level handle_disconnect) *)
Inductive fillres := FillOk | FillErr (e : err) | FillTimeout | FillCancel | FillFuel.
(* `with_deadline(deadline, read_packet())` polls the read first and the timer second, and an embassy timer yields once before it
   reports that it has expired.  So the first read of a fill that has to wait always waits (the runner's rule in io_read), but
   once the select has waited (`y`), a read that finds nothing to read after the deadline loses to the timer at once: the read
   future is dropped without any time passing.  A "future dropped" event of the script is left for the next await point. *)
Definition timer_fired (y : bool) (deadline : option N) (w : world) : bool :=
  y && match deadline with
       | Some d =>
           (d <=? w_now w) &&
           (let k := fst (fst (next_ev w)) in
            negb (N.eqb k 1) && negb (N.eqb k 2) &&
            (N.eqb k 3 || match fst (avail_split (w_now w) (w_inq w)) with [] => true | _ :: _ => false end))
       | None => false
       end.

Fixpoint fill_go (fuel : nat) (y : bool) (deadline : option N) (w : world) : world * fillres :=
  match fuel with
  | O => (w, FillFuel)
  | S f =>
      let s := w_sess w in
      if packet_available (s_reader s) then (w, FillOk) else
      match receive_buffer (s_reader s) with
      | (r', None) => (upd_sess w (set_reader s r'), FillErr EInvalidPacket)
      | (r', Some win) =>
          let w0 := upd_sess w (set_reader s r') in
          if N.eqb win 0 then (w0, FillOk) else
          if timer_fired y deadline w0 then (upd_log w0 (s2t "r " ++ show_N win ++ s2t " drop"), FillTimeout) else
          let '(w1, r) := io_read win deadline w0 in
          match r with
          | RFail => (w1, FillErr ETransport)
          | RCancel => (w1, FillCancel)
          | RTimeout => (w1, FillTimeout)
          | RData [] => (w1, FillErr EDisconnected)
          | RData d =>
              fill_go f (y || negb (N.eqb (w_waits w1) (w_waits w0))) deadline
                      (upd_sess w1 (set_reader (w_sess w1) (commit (s_reader (w_sess w1)) d)))
          end
      end
  end.
Definition fill_packet_reader (fuel : nat) (deadline : option N) (w : world) : world * fillres :=
  fill_go fuel false deadline w.

(* wait_for_progress *)
Fixpoint wait_for_progress (fuel : nat) (w : world) : world * outcome progress :=
  match fuel with
  | O => (w, OFuel)
  | S f =>
      let '(w1, r) := drive_packet fuel w in
      match r with
      | ODone PrIdle =>
          let deadline := next_deadline (s_rt (w_sess w1)) in
          if negb (w_live w1) then (w1, OFail EDisconnected) else
          let '(w2, fr) := fill_packet_reader fuel deadline w1 in
          match fr with
          | FillOk => wait_for_progress f w2
          | FillTimeout => wait_for_progress f w2
          | FillErr e => (w_hd w2, OFail e)
          | FillCancel => (w2, OCancel)
          | FillFuel => (w2, OFuel)
          end
      | _ => (w1, r)
      end
  end.

Definition op_poll (fuel : nat) (w : world) : world * outcome (option rpacket) :=
  let '(w1, r) := wait_for_progress fuel w in
  match r with
  | ODone (PrInbound p) => (w1, ODone (Some p))
  | ODone PrAdvanced => (w1, ODone None)
  | ODone PrIdle => (w1, OPanic)          (* unreachable!() *)
  | OFail e => (w1, OFail e) | OCancel => (w1, OCancel) | OFuel => (w1, OFuel) | OPanic => (w1, OPanic)
  end.

Fixpoint op_recv (fuel : nat) (w : world) : world * outcome (option rpacket) :=
  match fuel with
  | O => (w, OFuel)
  | S f =>
      let '(w1, r) := wait_for_progress fuel w in
      match r with
      | ODone (PrInbound p) => (w1, ODone (Some p))
      | ODone PrAdvanced => op_recv f w1
      | ODone PrIdle => (w1, OPanic)
      | OFail e => (w1, OFail e) | OCancel => (w1, OCancel) | OFuel => (w1, OFuel) | OPanic => (w1, OPanic)
      end
  end.

Definition op_drive (fuel : nat) (w : world) : world * outcome (option rpacket) :=
  let '(w1, r) := drive_packet fuel w in
  match r with
  | ODone (PrInbound p) => (w1, ODone (Some p))
  | ODone _ => (w1, ODone None)
  | OFail e => (w1, OFail e) | OCancel => (w1, OCancel) | OFuel => (w1, OFuel) | OPanic => (w1, OPanic)
  end.

(* ---------- operations ---------- *)
Definition bindu {A} (r : world * outcome unit) (k : world -> world * outcome A) : world * outcome A :=
  let '(w, o) := r in
  match o with
  | ODone _ => k w
  | OFail e => (w, OFail e) | OCancel => (w, OCancel) | OFuel => (w, OFuel) | OPanic => (w, OPanic)
  end.

Definition direct_send (fuel : nat) (bs : bytes) (w : world) : world * outcome unit :=
  bindu (write_all fuel bs w) (fun w1 =>
    let '(w2, r) := io_flush w1 in
    match r with
    | FlOk => (w2, ODone tt)
    | FlFail => (w2, OFail ETransport)
    | FlCancel => (w2, OCancel)
    end).

Definition finish_mid (fuel : nat) (w : world) (m : midres) : world * outcome (option op) :=
  match m with
  | MErr e => (w, OFail e)
  | MRetained o => bindu (flush_outbound fuel w) (fun w1 => (w1, ODone (Some o)))
  | MDirect bs =>
      (* QoS 0: write_all then flush; WriteZero does not latch, transport errors do *)
      let '(w1, r) := write_all fuel bs w in
      match r with
      | OFail EWriteZero => (mark_partial w w1 (lenN bs), OFail EWriteZero)
      | OFail e => (w_hd w1, OFail e)
      | OCancel => (mark_partial w w1 (lenN bs), OCancel)
      | OFuel => (mark_partial w w1 (lenN bs), OFuel) | OPanic => (mark_partial w w1 (lenN bs), OPanic)
      | ODone _ =>
          let '(w2, fr) := io_flush w1 in
          match fr with
          | FlFail => (w_hd w2, OFail ETransport)
          | FlCancel => (w2, OCancel)
          | FlOk => (upd_sess w2 (set_rt (w_sess w2) (note_outbound_activity (s_rt (w_sess w2)) (w_now w2))), ODone None)
          end
      end
  end.

Definition op_publish (fuel : nat) (r : pub_req) (w : world) : world * outcome (option op) :=
  if negb (w_live w) then (w, OFail EDisconnected) else
  bindu (flush_outbound fuel w) (fun w1 =>
    let '(s2, m) := publish_middle (w_sess w1) (w_live w1) r in
    finish_mid fuel (upd_sess w1 s2) m).

Definition op_subscribe (fuel : nat) (topics : list (bytes * sub_opts)) (ps : list prop) (w : world)
  : world * outcome (option op) :=
  if negb (w_live w) then (w, OFail EDisconnected) else
  match topics with [] => (w, OFail EInvalidRequest) | _ =>
  if negb (props_valid_for (PSlice ps) CtxSubscribe) then (w, OFail EInvalidRequest) else
  bindu (flush_outbound fuel w) (fun w1 =>
    let '(s2, m) := subscribe_middle (w_sess w1) topics ps in
    finish_mid fuel (upd_sess w1 s2) m)
  end.

Definition op_unsubscribe (fuel : nat) (topics : list bytes) (ps : list prop) (w : world)
  : world * outcome (option op) :=
  if negb (w_live w) then (w, OFail EDisconnected) else
  match topics with [] => (w, OFail EInvalidRequest) | _ =>
  if negb (props_valid_for (PSlice ps) CtxUnsubscribe) then (w, OFail EInvalidRequest) else
  bindu (flush_outbound fuel w) (fun w1 =>
    let '(s2, m) := unsubscribe_middle (w_sess w1) topics ps in
    finish_mid fuel (upd_sess w1 s2) m)
  end.

Definition op_disconnect (fuel : nat) (d : disconnect_req) (w : world) : world * outcome unit :=
  if negb (w_live w) then (w, ODone tt) else
  match disconnect_prepare (w_sess w) d with
  | DPErr e => (w, OFail e)
  | DPOk bs =>
      (* ghost: disconnect() does not drain pending work; if a queued packet is half written the DISCONNECT lands inside it *)
      let w := if has_partial (s_ob (w_sess w)) then upd_poison w true else w in
      let '(w1, r) := write_all fuel bs w in
      match r with
      | OCancel => (mark_partial w w1 (lenN bs), OCancel)
      | OFuel => (mark_partial w w1 (lenN bs), OFuel) | OPanic => (mark_partial w w1 (lenN bs), OPanic)
      | OFail e => (w_hd w1, OFail e)
      | ODone _ =>
          let '(w2, fr) := io_flush w1 in
          match fr with
          | FlCancel => (w2, OCancel)
          | FlFail => (w_hd w2, OFail ETransport)
          | FlOk => (w_hd w2, ODone tt)
          end
      end
  end.

(* Session::connect on a fresh transport; the result is the connect event (0 Connected / 1 Reconnected) *)
Definition sess_hd (w : world) : world := upd_sess w (sess_handle_disconnect (w_sess w)).

Definition op_connect (fuel : nat) (w : world) : world * outcome N :=
  let s0 := w_sess w in
  let s1 := set_ob (set_rt (set_reader s0 (reader_reset (s_reader s0))) (reset_transport (s_rt s0)))
                   (arm_replay (s_ob s0)) in
  (* scratch_space(): compact, encode CONNECT into buf[used..] *)
  let o1 := compact (s_ob s1) in
  let s2 := set_ob s1 o1 in
  let w2 := upd_sess w s2 in
  match enc_connect (ob_cap o1 - ob_used o1) (connect_request s2) with
  | SErr e => (w2, OFail (err_of_serr e))
  | SOk _ bs =>
      bindu (direct_send fuel bs w2) (fun w3 =>
        let w4 := upd_sess w3 (set_rt (w_sess w3) (rt_with_timers (s_rt (w_sess w3)) None None)) in
        let '(w5, fr) := fill_packet_reader fuel None w4 in
        match fr with
        | FillErr e => (sess_hd w5, OFail e)
        | FillCancel => (w5, OCancel)
        | FillTimeout => (w5, OPanic)
        | FillFuel => (w5, OFuel)
        | FillOk =>
            let s5 := w_sess w5 in
            match take_packet (s_reader s5) with
            | None => (sess_hd w5, OFail EInvalidPacket)
            | Some (r', _, p) =>
                let '(s6, cr) := connack_process (set_reader s5 r') p (w_now w5) in
                match cr with
                | CAOk resumed =>
                    (* ghost: did the broker's window leave room for what is carried over? *)
                    let ok := if resumed then unresolved_publishes (s_ob s6) <=? rt_maxquota (s_rt s6) else true in
                    (upd_envok (upd_sess w5 s6) (w_envok w5 && ok), ODone (if resumed then 1 else 0))
                | CAErr e true => (sess_hd (upd_sess w5 s6), OFail e)
                | CAErr e false => (upd_sess w5 s6, OFail e)
                end
            end
        end)
  end.
