(* Arena.v — Outbound: the transmit arena, retained packets, pending control packets and releases.
   [src/mqtt_client/outbound.rs] *)
From Minimq Require Import Bytes Varint Utf8 Props Ser.

Definition MAX_RETAINED : N := 8.
Definition MAX_PENDING_CONTROL : N := 8.
Definition MAX_PENDING_RELEASE : N := 8.
Definition CONTROL_PACKET_LEN : N := 9.
Definition MAX_FIXED_HEADER_SIZE : N := 5.

Inductive sstate := SWrite (written : N) | SFlush | SSent.
Definition sstate_eqb (a b : sstate) : bool :=
  match a, b with
  | SWrite x, SWrite y => N.eqb x y
  | SFlush, SFlush => true
  | SSent, SSent => true
  | _, _ => false
  end.
Definition is_fresh (s : sstate) : bool := match s with SWrite w => N.eqb w 0 | _ => false end.
Definition is_in_progress (s : sstate) : bool :=
  match s with SWrite w => negb (N.eqb w 0) | SFlush => true | SSent => false end.
Definition set_written_state (written len : N) : sstate :=
  if len <=? written then SFlush else SWrite written.
Definition matches_priority (s : sstate) (in_progress : bool) : bool :=
  if in_progress then is_in_progress s else is_fresh s.

Inductive caction := CPubAck (pid rc : N) | CPubRec (pid rc : N) | CPubComp (pid rc : N) | CPing.
Definition caction_eqb (a b : caction) : bool :=
  match a, b with
  | CPubAck p r, CPubAck p' r' | CPubRec p r, CPubRec p' r' | CPubComp p r, CPubComp p' r' =>
      N.eqb p p' && N.eqb r r'
  | CPing, CPing => true
  | _, _ => false
  end.

Record centry := { ce_act : caction; ce_st : sstate }.
Record lentry := { le_pid : N; le_rc : N; le_st : sstate }.
Record rentry := { re_pid : N; re_off : N; re_len : N; re_st : sstate }.

Record outbound := {
  ob_buf : bytes;             (* the whole arena, length = capacity *)
  ob_used : N;
  ob_ctl : list centry;
  ob_ret : list rentry;
  ob_rel : list lentry }.

Definition ob_cap (o : outbound) : N := lenN (ob_buf o).

Definition ob_new (cap : N) : outbound :=
  {| ob_buf := zerosN cap; ob_used := 0; ob_ctl := []; ob_ret := []; ob_rel := [] |}.

Definition ob_clear (o : outbound) : outbound :=
  {| ob_buf := ob_buf o; ob_used := 0; ob_ctl := []; ob_ret := []; ob_rel := [] |}.

Definition has_pending_state (o : outbound) : bool :=
  negb (match ob_ctl o with [] => true | _ => false end)
  || negb (match ob_ret o with [] => true | _ => false end)
  || negb (match ob_rel o with [] => true | _ => false end).
Definition is_quiescent (o : outbound) : bool := negb (has_pending_state o).
Definition retained_full (o : outbound) : bool := MAX_RETAINED <=? glen (ob_ret o).
(* unresolved_publishes: retained PUBLISH packets (first byte type 3) plus PUBRELs awaiting PUBCOMP *)
Definition is_publish_entry (buf : bytes) (e : rentry) : bool :=
  match dropN (re_off e) buf with b :: _ => N.eqb (b / 16) 3 | [] => false end.
Definition unresolved_publishes (o : outbound) : N :=
  glen (filter (is_publish_entry (ob_buf o)) (ob_ret o)) + glen (ob_rel o).

Definition used_after_compact (o : outbound) : N := sumN (map re_len (ob_ret o)).
Definition scratch_len (o : outbound) : N := ob_cap o - used_after_compact o.
Definition can_retain (o : outbound) : bool :=
  (glen (ob_ret o) <? MAX_RETAINED) && (MAX_FIXED_HEADER_SIZE <=? scratch_len o).

(* compact: slide every retained entry down to the running cursor (copy_within = memmove) *)
Fixpoint compact_go (buf : bytes) (cursor : N) (es : list rentry) : bytes * list rentry * N :=
  match es with
  | [] => (buf, [], cursor)
  | e :: t =>
      let buf' := if N.eqb (re_off e) cursor then buf
                  else overwrite buf cursor (sliceN (re_off e) (re_len e) buf) in
      let e' := {| re_pid := re_pid e; re_off := cursor; re_len := re_len e; re_st := re_st e |} in
      let '(b2, t', c2) := compact_go buf' (cursor + re_len e) t in
      (b2, e' :: t', c2)
  end.
Definition compact (o : outbound) : outbound :=
  let '(b, es, c) := compact_go (ob_buf o) 0 (ob_ret o) in
  {| ob_buf := b; ob_used := c; ob_ctl := ob_ctl o; ob_ret := es; ob_rel := ob_rel o |}.

Definition queue_control (o : outbound) (a : caction) : option outbound :=
  if MAX_PENDING_CONTROL <=? glen (ob_ctl o) then None
  else Some {| ob_buf := ob_buf o; ob_used := ob_used o;
               ob_ctl := ob_ctl o ++ [{| ce_act := a; ce_st := SWrite 0 |}];
               ob_ret := ob_ret o; ob_rel := ob_rel o |}.

Definition has_pending_pingreq (o : outbound) : bool :=
  existsb (fun e => match ce_act e with CPing => negb (sstate_eqb (ce_st e) SSent) | _ => false end) (ob_ctl o).

Fixpoint remove_first_ret (pid : N) (es : list rentry) : option (list rentry) :=
  match es with
  | [] => None
  | e :: t => if N.eqb (re_pid e) pid then Some t
              else match remove_first_ret pid t with Some t' => Some (e :: t') | None => None end
  end.

Definition ack_packet (o : outbound) (pid : N) : outbound * bool :=
  match remove_first_ret pid (ob_ret o) with
  | None => (o, false)
  | Some es =>
      (compact {| ob_buf := ob_buf o; ob_used := ob_used o; ob_ctl := ob_ctl o; ob_ret := es; ob_rel := ob_rel o |},
       true)
  end.

Definition has_retained (o : outbound) (pid : N) : bool := existsb (fun e => N.eqb (re_pid e) pid) (ob_ret o).

Definition queue_release (o : outbound) (pid rc : N) : option outbound :=
  if MAX_PENDING_RELEASE <=? glen (ob_rel o) then None
  else Some {| ob_buf := ob_buf o; ob_used := ob_used o; ob_ctl := ob_ctl o; ob_ret := ob_ret o;
               ob_rel := ob_rel o ++ [{| le_pid := pid; le_rc := rc; le_st := SWrite 0 |}] |}.

(* Vec::remove at the first entry with this id: the order of the remaining entries is kept *)
Fixpoint remove_first_rel (pid : N) (es : list lentry) : option (list lentry) :=
  match es with
  | [] => None
  | e :: t => if N.eqb (le_pid e) pid then Some t
              else match remove_first_rel pid t with Some t' => Some (e :: t') | None => None end
  end.
(* Vec::swap_remove at the first entry with this id: the last entry takes its place *)
Fixpoint swap_remove_rel (pid : N) (es : list lentry) : option (list lentry) :=
  match es with
  | [] => None
  | e :: t =>
      if N.eqb (le_pid e) pid then
        match rev t with
        | [] => Some []
        | lst :: rinit => Some (lst :: rev rinit)
        end
      else match swap_remove_rel pid t with Some t' => Some (e :: t') | None => None end
  end.

Definition ack_release (o : outbound) (pid : N) : outbound * bool :=
  match remove_first_rel pid (ob_rel o) with
  | None => (o, false)
  | Some es => ({| ob_buf := ob_buf o; ob_used := ob_used o; ob_ctl := ob_ctl o; ob_ret := ob_ret o; ob_rel := es |}, true)
  end.
Definition has_pending_release (o : outbound) (pid : N) : bool :=
  existsb (fun e => N.eqb (le_pid e) pid) (ob_rel o).

(* buf[offset] |= 1 << 3 *)
Definition set_bit3 (b : N) : N := if N.testbit b 3 then b else b + 8.
Definition poke_dup (buf : bytes) (off : N) : bytes :=
  takeN off buf ++ match dropN off buf with b :: t => set_bit3 b :: t | [] => [] end.
Definition mark_retained_dup (o : outbound) : outbound :=
  {| ob_buf := fold_left (fun b e => poke_dup b (re_off e)) (ob_ret o) (ob_buf o);
     ob_used := ob_used o; ob_ctl := ob_ctl o; ob_ret := ob_ret o; ob_rel := ob_rel o |}.

(* encode_publish / encode_packet: compact, encode into buf[used..], return the absolute offset and length.
   `enc` is the encoder applied to the free capacity.  (On failure the real code may have scribbled behind
   `used`; those bytes are never read again and are not modelled.) *)
Inductive eres := EOk (off len : N) | EErr (e : serr).
Definition encode_at (o : outbound) (enc : N -> sres) : outbound * eres :=
  let o1 := compact o in
  let start := ob_used o1 in
  match enc (ob_cap o1 - start) with
  | SErr e => (o1, EErr e)
  | SOk off bs =>
      ({| ob_buf := overwrite (ob_buf o1) (start + off) bs; ob_used := ob_used o1; ob_ctl := ob_ctl o1;
          ob_ret := ob_ret o1; ob_rel := ob_rel o1 |}, EOk (start + off) (lenN bs))
  end.

Definition retained_packet (o : outbound) (off len : N) : bytes := sliceN off len (ob_buf o).

Definition retain_packet (o : outbound) (pid off len : N) : option outbound :=
  if MAX_RETAINED <=? glen (ob_ret o) then None
  else Some {| ob_buf := ob_buf o; ob_used := N.max (ob_used o) (off + len); ob_ctl := ob_ctl o;
               ob_ret := ob_ret o ++ [{| re_pid := pid; re_off := off; re_len := len; re_st := SWrite 0 |}];
               ob_rel := ob_rel o |}.

Inductive ostep :=
| StCtl (a : caction) (st : sstate)
| StRel (pid rc : N) (st : sstate)
| StRet (pid off len : N) (st : sstate).

Definition find_ctl (p : bool) (l : list centry) : option ostep :=
  match find (fun e => matches_priority (ce_st e) p) l with
  | Some e => Some (StCtl (ce_act e) (ce_st e)) | None => None end.
Definition find_rel (p : bool) (l : list lentry) : option ostep :=
  match find (fun e => matches_priority (le_st e) p) l with
  | Some e => Some (StRel (le_pid e) (le_rc e) (le_st e)) | None => None end.
Definition find_ret (p : bool) (l : list rentry) : option ostep :=
  match find (fun e => matches_priority (re_st e) p) l with
  | Some e => Some (StRet (re_pid e) (re_off e) (re_len e) (re_st e)) | None => None end.
Definition orelse {A} (a b : option A) : option A := match a with Some _ => a | None => b end.

Definition next_step_pass (o : outbound) (p : bool) : option ostep :=
  orelse (find_ctl p (ob_ctl o)) (orelse (find_rel p (ob_rel o)) (find_ret p (ob_ret o))).
Definition next_step (o : outbound) : option ostep :=
  orelse (next_step_pass o true) (next_step_pass o false).

(* update the first element satisfying p *)
Fixpoint update_first {A} (p : A -> bool) (f : A -> A) (l : list A) : list A * bool :=
  match l with
  | [] => ([], false)
  | x :: t => if p x then (f x :: t, true) else let '(t', b) := update_first p f t in (x :: t', b)
  end.

Definition with_ctl (o : outbound) (l : list centry) : outbound :=
  {| ob_buf := ob_buf o; ob_used := ob_used o; ob_ctl := l; ob_ret := ob_ret o; ob_rel := ob_rel o |}.
Definition with_ret (o : outbound) (l : list rentry) : outbound :=
  {| ob_buf := ob_buf o; ob_used := ob_used o; ob_ctl := ob_ctl o; ob_ret := l; ob_rel := ob_rel o |}.
Definition with_rel (o : outbound) (l : list lentry) : outbound :=
  {| ob_buf := ob_buf o; ob_used := ob_used o; ob_ctl := ob_ctl o; ob_ret := ob_ret o; ob_rel := l |}.

Definition set_control_written (o : outbound) (a : caction) (written len : N) : outbound * bool :=
  let '(l, b) := update_first (fun e => caction_eqb (ce_act e) a)
                   (fun e => {| ce_act := ce_act e; ce_st := set_written_state written len |}) (ob_ctl o) in
  (with_ctl o l, b).
Definition flush_control (o : outbound) (a : caction) : outbound * bool :=
  let '(l, b) := update_first (fun e => caction_eqb (ce_act e) a)
                   (fun e => {| ce_act := ce_act e; ce_st := SSent |}) (ob_ctl o) in
  (with_ctl o (filter (fun e => negb (sstate_eqb (ce_st e) SSent)) l), b).
Definition set_retained_written (o : outbound) (pid written len : N) : outbound * bool :=
  let '(l, b) := update_first (fun e => N.eqb (re_pid e) pid)
                   (fun e => {| re_pid := re_pid e; re_off := re_off e; re_len := re_len e;
                                re_st := set_written_state written len |}) (ob_ret o) in
  (with_ret o l, b).
Definition flush_retained (o : outbound) (pid : N) : outbound * bool :=
  let '(l, b) := update_first (fun e => N.eqb (re_pid e) pid)
                   (fun e => {| re_pid := re_pid e; re_off := re_off e; re_len := re_len e; re_st := SSent |})
                   (ob_ret o) in
  (with_ret o l, b).
Definition set_release_written (o : outbound) (pid written len : N) : outbound * bool :=
  let '(l, b) := update_first (fun e => N.eqb (le_pid e) pid)
                   (fun e => {| le_pid := le_pid e; le_rc := le_rc e; le_st := set_written_state written len |})
                   (ob_rel o) in
  (with_rel o l, b).
Definition flush_release (o : outbound) (pid : N) : outbound * bool :=
  let '(l, b) := update_first (fun e => N.eqb (le_pid e) pid)
                   (fun e => {| le_pid := le_pid e; le_rc := le_rc e; le_st := SSent |}) (ob_rel o) in
  (with_rel o l, b).

Definition arm_replay (o : outbound) : outbound :=
  if negb (has_pending_state o) then o else
  let o1 := mark_retained_dup o in
  {| ob_buf := ob_buf o1; ob_used := ob_used o1;
     ob_ctl := map (fun e => {| ce_act := ce_act e; ce_st := SWrite 0 |}) (ob_ctl o1);
     ob_ret := map (fun e => {| re_pid := re_pid e; re_off := re_off e; re_len := re_len e; re_st := SWrite 0 |}) (ob_ret o1);
     ob_rel := map (fun e => {| le_pid := le_pid e; le_rc := le_rc e; le_st := SWrite 0 |}) (ob_rel o1) |}.

(* control packet encodings (9-byte stack buffer) and their size checks *)
Definition encode_control_packet (a : caction) : sres :=
  match a with
  | CPubAck pid rc => enc_ack CONTROL_PACKET_LEN 4 pid rc
  | CPubRec pid rc => enc_ack CONTROL_PACKET_LEN 5 pid rc
  | CPubComp pid rc => enc_ack CONTROL_PACKET_LEN 7 pid rc
  | CPing => enc_pingreq CONTROL_PACKET_LEN
  end.
Definition encode_pubrel (pid rc : N) : sres := enc_ack CONTROL_PACKET_LEN 6 pid rc.

Definition too_large (mps : option N) (len : N) : bool :=
  match mps with Some m => m <? len | None => false end.

(* an entry some but not all of whose bytes have been handed to the transport *)
Definition sstate_partial (st : sstate) : bool := match st with SWrite k => negb (N.eqb k 0) | _ => false end.
Definition has_partial (o : outbound) : bool :=
  existsb (fun e => sstate_partial (ce_st e)) (ob_ctl o) || existsb (fun e => sstate_partial (le_st e)) (ob_rel o)
  || existsb (fun e => sstate_partial (re_st e)) (ob_ret o).

