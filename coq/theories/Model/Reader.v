(* Reader.v — PacketReader.                                         [src/de/packet_reader.rs] *)
From Minimq Require Import Bytes Varint Utf8 Props Ser De.

(* rdata = the bytes committed so far (buffer[0..read_bytes]); rcap = buffer.len() *)
Record reader := { rcap : N; rdata : bytes; rplen : option N }.

Definition reader_new (cap : N) : reader := {| rcap := cap; rdata := []; rplen := None |}.
Definition reader_reset (r : reader) : reader := {| rcap := rcap r; rdata := []; rplen := None |}.
Definition read_bytes (r : reader) : N := lenN (rdata r).

(* probe_fixed_header: Err (None) = MalformedPacket *)
Definition probe (r : reader) : option reader :=
  if read_bytes r <=? 1 then Some r else
  let pl := probe_len (takeN 4 (dropN 1 (rdata r))) in
  if (5 <=? read_bytes r) && match pl with None => true | Some _ => false end then None
  else Some {| rcap := rcap r; rdata := rdata r; rplen := pl |}.

(* receive_buffer: the reader afterwards (probe may have set packet_length, also on failure) and the
   window length, None = Err(MalformedPacket) *)
Definition receive_buffer (r : reader) : reader * option N :=
  let r1 := match rplen r with None => probe r | Some _ => Some r end in
  match r1 with
  | None => ({| rcap := rcap r; rdata := rdata r; rplen := None |}, None)
  | Some r' =>
      let e := match rplen r' with Some pl => pl | None => read_bytes r' + 1 end in
      if e <=? rcap r' then (r', Some (e - read_bytes r')) else (r', None)
  end.

Definition commit (r : reader) (d : bytes) : reader :=
  {| rcap := rcap r; rdata := rdata r ++ d; rplen := rplen r |}.

Definition packet_available (r : reader) : bool :=
  match rplen r with Some pl => pl <=? read_bytes r | None => false end.

(* take_packet: (reset reader, packet length, decode of buffer[..packet_length]).
   `None` only when packet_length is None (callers check packet_available first).
   NOTE: when packet_length > read_bytes cannot happen under packet_available. *)
Definition take_packet (r : reader) : option (reader * N * option rpacket) :=
  match rplen r with
  | None => None
  | Some pl => Some (reader_reset r, pl, from_buffer (takeN pl (rdata r)))
  end.
