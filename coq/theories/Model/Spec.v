(* Spec.v — MQTT 5.0 written from the OASIS text, independently of minimq: the oracle against which
   "allowed", "legal", "well-formed" are defined.  (Part of the trusted base; kept short enough to read
   against the standard.) *)
From Minimq Require Import Bytes Varint Utf8 Props Ser.

(* Section 2.2.2.2, table 2-4: the packets (and the Will Properties) in which each property may appear. *)
Inductive ptype :=
| TCONNECT | TCONNACK | TPUBLISH | TPUBACK | TPUBREC | TPUBREL | TPUBCOMP | TSUBSCRIBE | TSUBACK
| TUNSUBSCRIBE | TUNSUBACK | TDISCONNECT | TAUTH | TWILL.

Definition ptype_eqb (a b : ptype) : bool :=
  match a, b with
  | TCONNECT, TCONNECT | TCONNACK, TCONNACK | TPUBLISH, TPUBLISH | TPUBACK, TPUBACK | TPUBREC, TPUBREC
  | TPUBREL, TPUBREL | TPUBCOMP, TPUBCOMP | TSUBSCRIBE, TSUBSCRIBE | TSUBACK, TSUBACK
  | TUNSUBSCRIBE, TUNSUBSCRIBE | TUNSUBACK, TUNSUBACK | TDISCONNECT, TDISCONNECT | TAUTH, TAUTH
  | TWILL, TWILL => true
  | _, _ => false
  end.

Definition spec_where (k : pkind) : list ptype :=
  match k with
  | KPayloadFormatIndicator => [TPUBLISH; TWILL]
  | KMessageExpiryInterval => [TPUBLISH; TWILL]
  | KContentType => [TPUBLISH; TWILL]
  | KResponseTopic => [TPUBLISH; TWILL]
  | KCorrelationData => [TPUBLISH; TWILL]
  | KSubscriptionIdentifier => [TPUBLISH; TSUBSCRIBE]
  | KSessionExpiryInterval => [TCONNECT; TCONNACK; TDISCONNECT]
  | KAssignedClientIdentifier => [TCONNACK]
  | KServerKeepAlive => [TCONNACK]
  | KAuthenticationMethod => [TCONNECT; TCONNACK; TAUTH]
  | KAuthenticationData => [TCONNECT; TCONNACK; TAUTH]
  | KRequestProblemInformation => [TCONNECT]
  | KWillDelayInterval => [TWILL]
  | KRequestResponseInformation => [TCONNECT]
  | KResponseInformation => [TCONNACK]
  | KServerReference => [TCONNACK; TDISCONNECT]
  | KReasonString => [TCONNACK; TPUBACK; TPUBREC; TPUBREL; TPUBCOMP; TSUBACK; TUNSUBACK; TDISCONNECT; TAUTH]
  | KReceiveMaximum => [TCONNECT; TCONNACK]
  | KTopicAliasMaximum => [TCONNECT; TCONNACK]
  | KTopicAlias => [TPUBLISH]
  | KMaximumQoS => [TCONNACK]
  | KRetainAvailable => [TCONNACK]
  | KUserProperty => [TCONNECT; TCONNACK; TPUBLISH; TWILL; TPUBACK; TPUBREC; TPUBREL; TPUBCOMP; TSUBSCRIBE;
                      TSUBACK; TUNSUBSCRIBE; TUNSUBACK; TDISCONNECT; TAUTH]
  | KMaximumPacketSize => [TCONNECT; TCONNACK]
  | KWildcardSubscriptionAvailable => [TCONNACK]
  | KSubscriptionIdentifierAvailable => [TCONNACK]
  | KSharedSubscriptionAvailable => [TCONNACK]
  end.

Definition appears_in (k : pkind) (t : ptype) : bool := existsb (ptype_eqb t) (spec_where k).

Definition ctx_ptype (c : pctx) : ptype :=
  match c with
  | CtxPublish => TPUBLISH | CtxSubscribe => TSUBSCRIBE | CtxUnsubscribe => TUNSUBSCRIBE
  | CtxDisconnect => TDISCONNECT | CtxWill => TWILL
  end.

(* What a *client* may attach.  Beyond the table: 3.3.2.3.8 — a PUBLISH sent from a client to a server
   MUST NOT contain a Subscription Identifier. *)
Definition client_may_send (k : pkind) (c : pctx) : bool :=
  appears_in k (ctx_ptype c)
  && negb (match c, k with CtxPublish, KSubscriptionIdentifier => true | _, _ => false end).

(* Legal values: byte flags are 0 or 1 (3.1.2.11.6-7, 3.2.2.3.5-14, 3.3.2.3.2), Maximum QoS is 0 or 1 or 2
   as a value the client may hold (0/1 on the wire from a server; the API admits 2 = "no restriction"),
   Subscription Identifier is 1..268435455 (3.8.2.1.2), Topic Alias is non-zero (3.3.2.3.4). *)
Definition legal_value (p : prop) : bool :=
  match pk p with
  | KPayloadFormatIndicator | KRequestProblemInformation | KRequestResponseInformation | KRetainAvailable
  | KWildcardSubscriptionAvailable | KSubscriptionIdentifierAvailable | KSharedSubscriptionAvailable =>
      N.eqb (pnum p) 0 || N.eqb (pnum p) 1
  | KMaximumQoS => N.eqb (pnum p) 0 || N.eqb (pnum p) 1 || N.eqb (pnum p) 2
  | KSubscriptionIdentifier => negb (N.eqb (pnum p) 0) && (pnum p <=? 268435455)
  | KTopicAlias => negb (N.eqb (pnum p) 0)
  | _ => true
  end.

(* Section 2.1.2 / 2.1.3, tables 2-1 and 2-2: the first byte of a packet a CLIENT may send.
   Type in the high nibble; flags fixed per type except PUBLISH (DUP, QoS, RETAIN: QoS 3 is malformed and
   DUP must be 0 at QoS 0 [MQTT-3.3.1-2]).  AUTH (15) is legal for a client but never sent by this one. *)
Definition spec_client_first_byte (h : N) : bool :=
  let typ := h / 16 in
  let fl := h mod 16 in
  if N.eqb typ 3 then
    let q := (fl / 2) mod 4 in
    negb (N.eqb q 3) && negb (N.eqb q 0 && N.testbit fl 3)
  else if N.eqb typ 6 || N.eqb typ 8 || N.eqb typ 10 then N.eqb fl 2
  else if N.eqb typ 1 || N.eqb typ 4 || N.eqb typ 5 || N.eqb typ 7 || N.eqb typ 12 || N.eqb typ 14 || N.eqb typ 15
  then N.eqb fl 0
  else false.

(* Section 2.1.4: one control packet = first byte, Remaining Length as a variable byte integer, then exactly
   that many bytes.  take_frame splits the first packet off a stream (None: incomplete or malformed length). *)
Definition take_frame (l : bytes) : option (bytes * bytes) :=
  match l with
  | [] => None
  | h :: t =>
      match varint_read t with
      | VOk n body =>
          if lenN body <? n then None
          else let total := 1 + (lenN t - lenN body) + n in Some (takeN total l, dropN total l)
      | _ => None
      end
  end.

Fixpoint split_frames (fuel : nat) (l : bytes) : option (list bytes) :=
  match fuel with
  | O => None
  | S f =>
      match l with
      | [] => Some []
      | _ => match take_frame l with
             | Some (p, rest) => match split_frames f rest with Some ps => Some (p :: ps) | None => None end
             | None => None
             end
      end
  end.
